// C20 — Chunk garbage collection never deletes referenced data.
//
// A real filer.Filer over leveldb / leveldb2 / leveldb3 is driven through the real
// FilerServer gRPC handler methods (CreateEntry, UpdateEntry, AppendToEntry,
// DeleteEntry, AtomicRenameEntry) with files made of data chunks and manifest chunks
// (manifest blobs served by a harness blob server that the filer's MasterClient
// learns from a fake master), hard links as the mount creates them, overwrites that
// keep / drop / cover / re-wrap old chunks, appends, renames, deletes with and
// without data deletion, recursive deletes and S3-multipart-style adoption of parts.
//
// Every file id handed to the deletion queue or to direct deletion is captured
// synchronously by verifhook.SetChunksObserver. After every RPC the live namespace is
// read back (FindEntry view, hard links resolved, manifests expanded from the blobs)
// and the oracle checks (1) deleted ∩ referenced-after = ∅ and (2) for RPCs that
// request data deletion: referenced-before − referenced-after ⊆ deleted.
package main

import (
	"context"
	"fmt"
	"math/rand"
	"os"
	"sort"
	"strconv"
	"strings"
	"sync"

	"github.com/chrislusf/seaweedfs/weed/filer"
	"github.com/chrislusf/seaweedfs/weed/pb/filer_pb"
	"github.com/chrislusf/seaweedfs/weed/util/verifhook"

	"verifharness/lib"
)

type op struct {
	Kind string `json:"kind"` // create overwrite append link rename delete adopt mkparts threshold
	A    string `json:"a,omitempty"`
	B    string `json:"b,omitempty"`
	Mode string `json:"mode,omitempty"`
	Via  string `json:"via,omitempty"` // overwrite: create|update
	N    int    `json:"n,omitempty"`
	// Fault: a store method (update, insert, delete, kvput, deleteFolderChildren) whose next call is
	// made to fail through the counting store, so that the request is refused half-way
	Fault string `json:"fault,omitempty"`
}

func (o op) short() string {
	return o.Kind + ":" + o.A + ">" + o.B + ":" + o.Mode + ":" + o.Via + ":" + o.Fault
}

var universe = []string{"/d", "/e", "/u", "/d/f1", "/d/f2", "/e/f3", "/e/f4", "/d/s", "/d/s/f5", "/u/p1", "/u/p2", "/e/d", "/e/d/f1", "/e/d/f2", "/e/d/s", "/e/d/s/f5", "/e/s", "/e/s/f5"}

type refBy struct {
	Path     string
	Via      string // direct | manifest-child
	Hardlink bool
}
type refs map[string][]refBy

type sinkHit struct{ Sink, Id string }

type world struct {
	r    *lib.Run
	kind string
	bm   *lib.BlobMaster
	fw   *lib.FilerWorld

	mu       sync.Mutex
	observed []sinkHit

	seq        uint64
	linkSeq    int
	linkKeys   [][]byte
	before     refs
	beforeDump *lib.TreeDump
	hist       []op
	sinceRenew int
	stats      map[string]int64
	// chunks that were referenced by a hard-linked name when that name (or a directory
	// above it) was renamed: AtomicRenameEntry turns such a name into an unlinked copy
	// (finding C21-rename-drops-link), so from then on the chunk is shared between entries
	// that the filer treats as unrelated. Violations on such chunks get their own cause.
	tainted map[string]bool
}

func parentOf(p string) string {
	i := strings.LastIndex(p, "/")
	if i <= 0 {
		return "/"
	}
	return p[:i]
}
func nameOf(p string) string { return p[strings.LastIndex(p, "/")+1:] }

func (w *world) observe(sink string, ids []string) {
	w.mu.Lock()
	for _, id := range ids {
		w.observed = append(w.observed, sinkHit{sink, id})
	}
	w.mu.Unlock()
}

func (w *world) takeObserved() []sinkHit {
	w.mu.Lock()
	o := w.observed
	w.observed = nil
	w.mu.Unlock()
	return o
}

func (w *world) dataChunk(offset int64, size uint64) *filer_pb.FileChunk {
	w.seq++
	return &filer_pb.FileChunk{FileId: lib.Fid(3, w.seq, 0x0c200c20), Offset: offset, Size: size, Mtime: int64(1600000000+w.seq) * 1e9}
}

func (w *world) manifestOver(children []*filer_pb.FileChunk) *filer_pb.FileChunk {
	w.seq++
	return w.bm.MakeManifestChunk(lib.Fid(w.bm.Vid, w.seq, 0x0c200c20), children, int64(1600000000+w.seq)*1e9)
}

// references computes which chunk ids the live namespace references, and through whom.
func (w *world) references(d *lib.TreeDump) refs {
	out := refs{}
	for _, p := range d.Paths() {
		e := d.Found[p]
		if e.IsDirectory() {
			continue
		}
		hl := len(e.HardLinkId) != 0
		var add func(chunks []*filer_pb.FileChunk, via string, depth int)
		add = func(chunks []*filer_pb.FileChunk, via string, depth int) {
			for _, c := range chunks {
				id := c.GetFileIdString()
				out[id] = append(out[id], refBy{p, via, hl})
				if c.IsChunkManifest && depth < 4 {
					add(w.bm.ManifestChildren(id), "manifest-child", depth+1)
				}
			}
		}
		add(e.Chunks, "direct", 0)
	}
	return out
}

func kindOfTarget(d *lib.TreeDump, p string) string {
	e := d.Found[p]
	switch {
	case e == nil:
		return "absent"
	case e.IsDirectory():
		for q, c := range d.Found {
			if strings.HasPrefix(q, p+"/") && len(c.HardLinkId) != 0 {
				return "dir-with-hardlinks"
			}
		}
		return "dir"
	case len(e.HardLinkId) == 0:
		return "plain"
	}
	// by the names that actually exist (the stored counter may be off after a listed finding
	// or after a request that a store fault stopped half-way)
	names := 0
	for _, c := range d.Found {
		if !c.IsDirectory() && string(c.HardLinkId) == string(e.HardLinkId) {
			names++
		}
	}
	if names <= 1 {
		return "hardlink-last"
	}
	return "hardlink"
}

// rpc runs one request against the real filer and judges its chunk deletions.
// requested: the request asks the filer to delete data that it makes unreferenced.
func (w *world) rpc(label string, o op, target string, requested bool, fn func() string) bool {
	r := w.r
	if !w.fw.MasterReady() {
		r.Inconclusive("the filer lost the fake master's volume location (harness-side), manifests cannot be resolved")
		return false
	}
	_ = w.takeObserved()
	if o.Fault != "" {
		w.fw.Store.InjectFault(o.Fault, 1)
	}
	errText := fn()
	if o.Fault != "" {
		if w.fw.Store.ClearFaults() > 0 {
			r.Count("rpcs_with_injected_store_fault", 1)
		}
	}
	hits := w.takeObserved()
	if errText != "" {
		r.Count("rpcs_refused", 1)
		if len(w.before) > 0 {
			r.Count("rpcs_refused_while_chunks_referenced", 1)
		}
		// a refused request need not dispose of anything (clause 2 is about requests that take
		// effect); clause 1 holds for it like for every other request
		requested = false
	}
	d := w.fw.Dump(universe)
	after := w.references(d)
	r.Eval(1)
	r.Count("rpcs", 1)
	r.Count("sink_hits", int64(len(hits)))
	for _, h := range hits {
		r.Count("sink_"+h.Sink, 1)
	}
	tk := kindOfTarget(w.beforeDump, target)
	ok := true
	detail := func(msg string, extra interface{}) map[string]interface{} {
		return map[string]interface{}{"msg": msg, "store": w.kind, "history": w.hist, "op": o, "rpc": label, "target": target, "target_kind": tk,
			"rpc_error": errText, "sink_hits": hits, "extra": extra}
	}
	deleted := map[string]string{}
	for _, h := range hits {
		deleted[h.Id] = h.Sink
	}
	// (1) nothing that is still referenced may reach a deletion sink
	ids := make([]string, 0, len(deleted))
	for id := range deleted {
		ids = append(ids, id)
	}
	sort.Strings(ids)
	reported := map[string]bool{}
	for _, id := range ids {
		rb := after[id]
		if len(rb) == 0 {
			continue
		}
		survivor, via := "other-path", rb[0].Via
		for _, x := range rb {
			if x.Path == target || (o.B != "" && x.Path == o.B) {
				survivor, via = "same-path", x.Via
				break
			}
			if x.Hardlink {
				survivor, via = "hardlink-name", x.Via
			}
		}
		t := tk
		if t == "plain" && survivor == "hardlink-name" {
			t = "plain-sharing-chunks-with-hardlink"
		}
		cause := "none"
		if w.tainted[id] {
			cause = "shared-after-rename-of-hardlinked-name"
		}
		sig := lib.Sig{"op": label, "class": "referenced-chunk-deleted", "sink": deleted[id], "target": t, "survivor": survivor, "via": via, "cause": cause}
		if o.Mode != "" {
			sig["mode"] = o.Mode
		}
		if te := w.beforeDump.Found[target]; te != nil && len(te.HardLinkId) != 0 && tk == "hardlink" && te.HardLinkCounter <= 1 {
			// the stored link counter says "last name" although other names exist (left behind by an
			// earlier request that a store fault stopped half-way, or by a listed C21 finding): a
			// client that follows the mount's rule IsDeleteData = counter<=1 is misled
			sig["counter"] = "undercounts"
		}
		if errText != "" {
			sig["outcome"] = "refused"
			if o.Fault != "" {
				sig["fault"] = o.Fault
			}
		}
		if reported[sig.String()] {
			continue
		}
		reported[sig.String()] = true
		if r.Violation(sig, detail("chunk "+id+" was handed to the "+deleted[id]+" deletion sink but is still referenced", map[string]interface{}{"chunk": id, "still_referenced_by": rb})) {
			ok = false
		}
	}
	r.Count("deleted_ids_checked", int64(len(ids)))
	// (2) what the request made unreferenced must have been handed to a sink
	if requested {
		var gone []string
		for id := range w.before {
			if len(after[id]) == 0 {
				gone = append(gone, id)
			}
		}
		sort.Strings(gone)
		r.Count("chunks_unreferenced_by_deleting_rpcs", int64(len(gone)))
		for _, id := range gone {
			if _, ok2 := deleted[id]; ok2 {
				continue
			}
			was := "plain"
			via := w.before[id][0].Via
			for _, x := range w.before[id] {
				if x.Hardlink {
					was = "hardlink"
				}
			}
			sig := lib.Sig{"op": label, "class": "unreferenced-chunk-not-deleted", "target": tk, "was": was, "via": via}
			if o.Mode != "" {
				sig["mode"] = o.Mode
			}
			if reported[sig.String()] {
				continue
			}
			reported[sig.String()] = true
			if r.Violation(sig, detail("chunk "+id+" lost its last reference in a request that asked for data deletion but reached no deletion sink", map[string]interface{}{"chunk": id, "was_referenced_by": w.before[id]})) {
				ok = false
			}
		}
	}
	w.stats[label+"."+tk]++
	w.before, w.beforeDump = after, d
	return ok
}

func (w *world) lookup(p string) *filer_pb.Entry {
	resp, err := w.fw.FS.LookupDirectoryEntry(context.Background(), &filer_pb.LookupDirectoryEntryRequest{Directory: parentOf(p), Name: nameOf(p)})
	if err != nil || resp == nil {
		return nil
	}
	return resp.Entry
}

func fileAttrs(size uint64, ts int64) *filer_pb.FuseAttributes {
	return &filer_pb.FuseAttributes{Mtime: ts, Crtime: 1600000000, FileMode: 0644, Uid: 1000, Gid: 1000, FileSize: size}
}

func total(chunks []*filer_pb.FileChunk) uint64 { return filer.TotalSize(chunks) }

func (w *world) createRPC(dir string, e *filer_pb.Entry) string {
	resp, err := w.fw.FS.CreateEntry(context.Background(), &filer_pb.CreateEntryRequest{Directory: dir, Entry: e})
	if err != nil {
		return err.Error()
	}
	if resp != nil && resp.Error != "" {
		return resp.Error
	}
	return ""
}

func (w *world) updateRPC(dir string, e *filer_pb.Entry) string {
	if _, err := w.fw.FS.UpdateEntry(context.Background(), &filer_pb.UpdateEntryRequest{Directory: dir, Entry: e}); err != nil {
		return err.Error()
	}
	return ""
}

func (w *world) deleteRPC(p string, data, recursive bool) string {
	resp, err := w.fw.FS.DeleteEntry(context.Background(), &filer_pb.DeleteEntryRequest{Directory: parentOf(p), Name: nameOf(p), IsDeleteData: data, IsRecursive: recursive})
	if err != nil {
		return err.Error()
	}
	return resp.Error
}

// step executes one operation (one or more RPCs). Returns false to stop the sequence.
func (w *world) step(o op) bool {
	cur := w.beforeDump
	exists := func(p string) *filer.Entry { return cur.Found[p] }
	isFile := func(p string) bool { e := exists(p); return e != nil && !e.IsDirectory() }
	skip := func() bool { w.stats[o.Kind+".inapplicable"]++; return true }
	w.hist = append(w.hist, o)
	switch o.Kind {
	case "create":
		if exists(o.A) != nil {
			return skip()
		}
		var chunks []*filer_pb.FileChunk
		n := o.N
		if n < 1 {
			n = 2
		}
		off := int64(0)
		for i := 0; i < n; i++ {
			chunks = append(chunks, w.dataChunk(off, 10))
			off += 10
		}
		if o.Mode == "with-manifest" {
			chunks = append([]*filer_pb.FileChunk{w.manifestOver(chunks[:len(chunks)-1])}, chunks[len(chunks)-1])
		}
		if o.Mode == "with-covered-chunk" {
			// a later chunk covering the first one completely: the first one is garbage on arrival
			chunks = append(chunks, w.dataChunk(0, 10))
		}
		e := &filer_pb.Entry{Name: nameOf(o.A), Attributes: fileAttrs(total(chunks), int64(1600000000+w.seq)), Chunks: chunks}
		return w.rpc("create-new", o, o.A, true, func() string { return w.createRPC(parentOf(o.A), e) })
	case "mkdir-over-file":
		// a type-confused create: a directory at the path of an existing file (must be refused)
		if !isFile(o.A) {
			return skip()
		}
		e := &filer_pb.Entry{Name: nameOf(o.A), IsDirectory: true, Attributes: &filer_pb.FuseAttributes{Mtime: 1600000000, Crtime: 1600000000, FileMode: uint32(os.ModeDir) | 0755, Uid: 1000, Gid: 1000}}
		return w.rpc("create-dir-over-file", o, o.A, true, func() string { return w.createRPC(parentOf(o.A), e) })
	case "create-excl":
		// O_EXCL create of an existing file with fresh chunks (must be refused, EEXIST)
		if !isFile(o.A) {
			return skip()
		}
		chunks := []*filer_pb.FileChunk{w.dataChunk(0, 9)}
		e := &filer_pb.Entry{Name: nameOf(o.A), Attributes: fileAttrs(9, int64(1600000000+w.seq)), Chunks: chunks}
		return w.rpc("create-excl", o, o.A, true, func() string {
			resp, err := w.fw.FS.CreateEntry(context.Background(), &filer_pb.CreateEntryRequest{Directory: parentOf(o.A), Entry: e, OExcl: true})
			if err != nil {
				return err.Error()
			}
			return resp.Error
		})
	case "overwrite":
		if !isFile(o.A) {
			return skip()
		}
		old := w.lookup(o.A)
		if old == nil {
			return skip()
		}
		oc := lib.CloneChunks(old.Chunks)
		var nc []*filer_pb.FileChunk
		end := int64(total(oc))
		switch o.Mode {
		case "replace", "as-plain":
			nc = []*filer_pb.FileChunk{w.dataChunk(0, 10), w.dataChunk(10, 7)}
		case "keep-append":
			nc = append(oc, w.dataChunk(end, 5))
		case "drop-one":
			if len(oc) > 0 {
				nc = append(nc, oc[1:]...)
			}
			nc = append(nc, w.dataChunk(end, 5))
		case "cover":
			nc = oc
			for _, c := range oc {
				if !c.IsChunkManifest {
					nc = append(nc, w.dataChunk(c.Offset, c.Size))
					break
				}
			}
		case "rewrap":
			// what MaybeManifestize does to a long chunk list: the data chunks move into a new manifest
			var data, manifests []*filer_pb.FileChunk
			for _, c := range oc {
				if c.IsChunkManifest {
					manifests = append(manifests, c)
				} else {
					data = append(data, c)
				}
			}
			if len(data) == 0 {
				return skip()
			}
			nc = append([]*filer_pb.FileChunk{w.manifestOver(data)}, manifests...)
		}
		e := &filer_pb.Entry{Name: nameOf(o.A), Attributes: fileAttrs(total(nc), int64(1600000000+w.seq)), Chunks: nc}
		if o.Mode != "as-plain" {
			e.HardLinkId, e.HardLinkCounter = old.HardLinkId, old.HardLinkCounter
		}
		if o.Via == "update" {
			return w.rpc("update-overwrite", o, o.A, true, func() string { return w.updateRPC(parentOf(o.A), e) })
		}
		return w.rpc("create-overwrite", o, o.A, true, func() string { return w.createRPC(parentOf(o.A), e) })
	case "append":
		if e := exists(o.A); e != nil && e.IsDirectory() {
			return skip()
		}
		chunks := []*filer_pb.FileChunk{w.dataChunk(0, 6)}
		if o.N > 1 {
			chunks = append(chunks, w.dataChunk(0, 4))
		}
		return w.rpc("append", o, o.A, true, func() string {
			_, err := w.fw.FS.AppendToEntry(context.Background(), &filer_pb.AppendToEntryRequest{Directory: parentOf(o.A), EntryName: nameOf(o.A), Chunks: chunks})
			if err != nil {
				return err.Error()
			}
			return ""
		})
	case "link":
		if !isFile(o.A) || exists(o.B) != nil {
			return skip()
		}
		old := w.lookup(o.A)
		if old == nil {
			return skip()
		}
		if len(old.HardLinkId) == 0 {
			w.linkSeq++
			id := make([]byte, 17)
			copy(id, fmt.Sprintf("verif-c20-%06d", w.linkSeq))
			id[16] = 0x01
			old.HardLinkId, old.HardLinkCounter = id, 1
			w.linkKeys = append(w.linkKeys, id)
		}
		old.HardLinkCounter++
		if !w.rpc("link-update-old", o, o.A, true, func() string { return w.updateRPC(parentOf(o.A), old) }) {
			return false
		}
		ne := &filer_pb.Entry{Name: nameOf(o.B), Attributes: old.Attributes, Chunks: lib.CloneChunks(old.Chunks), Extended: old.Extended,
			HardLinkId: old.HardLinkId, HardLinkCounter: old.HardLinkCounter}
		return w.rpc("link-create-new", o, o.B, true, func() string { return w.createRPC(parentOf(o.B), ne) })
	case "rename":
		src := exists(o.A)
		if src == nil || o.A == o.B || strings.HasPrefix(o.B, o.A+"/") {
			return skip()
		}
		if dst := exists(o.B); dst != nil && dst.IsDirectory() != src.IsDirectory() {
			return skip()
		}
		label := "rename"
		if exists(o.B) != nil {
			label = "rename-overwrite"
		}
		for id, rb := range w.before {
			for _, x := range rb {
				if x.Hardlink && (x.Path == o.A || strings.HasPrefix(x.Path, o.A+"/")) {
					w.tainted[id] = true
				}
			}
		}
		// the request is judged against the target it replaces
		target := o.B
		if exists(o.B) == nil {
			target = o.A
		}
		// only a rename that replaces an existing file asks the filer to dispose of data
		return w.rpc(label, o, target, label == "rename-overwrite", func() string {
			_, err := w.fw.FS.AtomicRenameEntry(context.Background(), &filer_pb.AtomicRenameEntryRequest{OldDirectory: parentOf(o.A), OldName: nameOf(o.A), NewDirectory: parentOf(o.B), NewName: nameOf(o.B)})
			if err != nil {
				return err.Error()
			}
			return ""
		})
	case "delete":
		e := exists(o.A)
		if e == nil {
			return skip()
		}
		data := o.Mode != "nodata"
		if o.Mode == "mount" {
			// Dir.removeOneFile: IsDeleteData = HardLinkCounter <= 1; removeFolder: always true
			if !e.IsDirectory() {
				pe := w.lookup(o.A)
				data = pe != nil && pe.HardLinkCounter <= 1
			}
		}
		return w.rpc("delete", o, o.A, data, func() string { return w.deleteRPC(o.A, data, e.IsDirectory()) })
	case "mkparts":
		for _, p := range []string{"/u/p1", "/u/p2"} {
			if exists(p) != nil {
				continue
			}
			chunks := []*filer_pb.FileChunk{w.dataChunk(0, 8)}
			e := &filer_pb.Entry{Name: nameOf(p), Attributes: fileAttrs(8, int64(1600000000+w.seq)), Chunks: chunks}
			pp := p
			if !w.rpc("create-new", o, pp, true, func() string { return w.createRPC("/u", e) }) {
				return false
			}
		}
		return true
	case "adopt":
		// S3 CompleteMultipartUpload: the final object takes over the parts' chunks, then the
		// upload directory is removed without data deletion
		var chunks []*filer_pb.FileChunk
		off := int64(0)
		for _, p := range []string{"/u/p1", "/u/p2"} {
			if e := exists(p); e != nil && !e.IsDirectory() && len(e.HardLinkId) == 0 {
				for _, c := range lib.CloneChunks(e.Chunks) {
					c.Offset = off
					off += int64(c.Size)
					chunks = append(chunks, c)
				}
			}
		}
		if len(chunks) == 0 || (exists(o.A) != nil && !isFile(o.A)) {
			return skip()
		}
		if old := exists(o.A); old != nil && len(old.HardLinkId) != 0 {
			return skip()
		}
		e := &filer_pb.Entry{Name: nameOf(o.A), Attributes: fileAttrs(uint64(off), int64(1600000000+w.seq)), Chunks: chunks}
		if !w.rpc("adopt-create", o, o.A, true, func() string { return w.createRPC(parentOf(o.A), e) }) {
			return false
		}
		return w.rpc("adopt-delete-parts", o, "/u", false, func() string { return w.deleteRPC("/u", false, true) })
	}
	return true
}

func (w *world) startCase(nops int) {
	w.hist = nil
	w.sinceRenew += nops
	if w.fw == nil {
		w.fw = lib.NewFilerWorld(w.r, w.kind, w.bm)
		verifhook.SetChunksObserver(w.observe)
	} else if w.sinceRenew > 400 {
		w.fw.FreshStore()
		w.sinceRenew = 0
	} else {
		d := w.fw.Dump(universe)
		w.fw.Wipe(d, w.linkKeys)
	}
	w.linkKeys = nil
	w.beforeDump = w.fw.Dump(universe)
	if len(w.beforeDump.Found) != 0 {
		w.fw.FreshStore()
		w.sinceRenew = 0
		w.beforeDump = w.fw.Dump(universe)
	}
	w.before = w.references(w.beforeDump)
	_ = w.takeObserved()
}

func (w *world) runSeq(ops []op) {
	w.r.Case(map[string]interface{}{"store": w.kind, "ops": ops})
	w.startCase(len(ops))
	for _, o := range ops {
		if !w.step(o) {
			return
		}
	}
}

// thresholdCase drives the filer's own MaybeManifestize (batch constant 10 000) in-process:
// a file with 9 999 data chunks gets two more by AppendToEntry, the handler wraps the first
// 10 000 into a manifest that it uploads through Assign + HTTP upload (served by the harness).
func (w *world) thresholdCase() {
	r := w.r
	w.startCase(1000)
	w.bm.AllowAssign(4)
	var chunks []*filer_pb.FileChunk
	for i := 0; i < filer.ManifestBatch-1; i++ {
		chunks = append(chunks, w.dataChunk(int64(i)*4, 4))
	}
	o := op{Kind: "threshold", A: "/d/big", Mode: "manifestize-at-10000"}
	w.hist = []op{o}
	r.Case(map[string]interface{}{"store": w.kind, "ops": w.hist})
	e := &filer_pb.Entry{Name: "big", Attributes: fileAttrs(total(chunks), 1600000000), Chunks: chunks}
	universe = append(universe, "/d/big")
	defer func() { universe = universe[:len(universe)-1] }()
	if !w.rpc("create-new", o, "/d/big", true, func() string { return w.createRPC("/d", e) }) {
		return
	}
	up0 := w.bm.Uploads()
	for i := 0; i < 2; i++ {
		c := w.dataChunk(0, 4)
		w.rpc("append", o, "/d/big", true, func() string {
			_, err := w.fw.FS.AppendToEntry(context.Background(), &filer_pb.AppendToEntryRequest{Directory: "/d", EntryName: "big", Chunks: []*filer_pb.FileChunk{c}})
			if err != nil {
				return err.Error()
			}
			return ""
		})
	}
	w.bm.AllowAssign(0)
	r.Count("threshold_manifest_uploads", w.bm.Uploads()-up0)
	if e := w.beforeDump.Found["/d/big"]; e != nil {
		nm := 0
		for _, c := range e.Chunks {
			if c.IsChunkManifest {
				nm++
			}
		}
		r.Count("threshold_manifest_chunks_in_entry", int64(nm))
		r.Count("threshold_chunks_referenced", int64(len(w.before)))
	}
	w.fw.FreshStore()
	w.sinceRenew = 0
}

// ---------------------------------------------------------------------------

func alphabet() []op {
	return []op{
		{Kind: "create", A: "/d/f2", Mode: "with-manifest", N: 3},
		{Kind: "overwrite", A: "/d/f1", Mode: "replace", Via: "create"},
		{Kind: "overwrite", A: "/d/f1", Mode: "keep-append", Via: "update"},
		{Kind: "overwrite", A: "/d/f1", Mode: "keep-append", Via: "create"},
		{Kind: "overwrite", A: "/d/f1", Mode: "rewrap", Via: "create"},
		{Kind: "overwrite", A: "/d/f1", Mode: "rewrap", Via: "update"},
		{Kind: "overwrite", A: "/d/f1", Mode: "cover", Via: "create"},
		{Kind: "overwrite", A: "/d/f1", Mode: "drop-one", Via: "update"},
		{Kind: "overwrite", A: "/d/f2", Mode: "as-plain", Via: "create"},
		{Kind: "overwrite", A: "/d/f2", Mode: "replace", Via: "update"},
		{Kind: "append", A: "/d/f1", N: 2},
		{Kind: "link", A: "/d/f1", B: "/d/f2"},
		{Kind: "link", A: "/d/f1", B: "/e/f3"},
		{Kind: "rename", A: "/d/f1", B: "/e/f3"},
		{Kind: "rename", A: "/d/f2", B: "/d/f1"},
		{Kind: "rename", A: "/d", B: "/e/d"},
		{Kind: "delete", A: "/d/f1", Mode: "data"},
		{Kind: "delete", A: "/d/f1", Mode: "nodata"},
		{Kind: "delete", A: "/d/f2", Mode: "mount"},
		{Kind: "delete", A: "/d", Mode: "data"},
		{Kind: "delete", A: "/e/f3", Mode: "mount"},
		{Kind: "mkparts"},
		{Kind: "adopt", A: "/d/f1"},
		// refused requests: type conflict, O_EXCL, store errors half-way
		{Kind: "mkdir-over-file", A: "/d/f1"},
		{Kind: "create-excl", A: "/d/f1"},
		{Kind: "overwrite", A: "/d/f1", Mode: "replace", Via: "create", Fault: "update"},
		{Kind: "overwrite", A: "/d/f1", Mode: "keep-append", Via: "update", Fault: "update"},
		{Kind: "overwrite", A: "/d/f2", Mode: "replace", Via: "create", Fault: "kvput"},
		{Kind: "delete", A: "/d/f1", Mode: "data", Fault: "delete"},
	}
}

var files = []string{"/d/f1", "/d/f2", "/e/f3", "/e/f4", "/d/s/f5"}

func randomOp(rng *rand.Rand, w *world) op {
	var exFiles, exAll []string
	for _, p := range w.beforeDump.Paths() {
		exAll = append(exAll, p)
		if !w.beforeDump.Found[p].IsDirectory() {
			exFiles = append(exFiles, p)
		}
	}
	pickFile := func() string { return files[rng.Intn(len(files))] }
	exFile := func() string {
		if len(exFiles) == 0 || rng.Intn(10) == 0 {
			return pickFile()
		}
		return exFiles[rng.Intn(len(exFiles))]
	}
	faults := []string{"update", "update", "insert", "delete", "kvput", "deleteFolderChildren"}
	if rng.Intn(12) == 0 {
		// a request refused half-way or up front
		switch rng.Intn(5) {
		case 0:
			return op{Kind: "mkdir-over-file", A: exFile()}
		case 1:
			return op{Kind: "create-excl", A: exFile()}
		case 2:
			p := exFile()
			if len(exAll) > 0 && rng.Intn(3) == 0 {
				p = exAll[rng.Intn(len(exAll))]
			}
			return op{Kind: "delete", A: p, Mode: []string{"data", "mount"}[rng.Intn(2)], Fault: faults[rng.Intn(len(faults))]}
		case 3:
			return op{Kind: "append", A: exFile(), N: 1, Fault: faults[rng.Intn(len(faults))]}
		default:
			return op{Kind: "overwrite", A: exFile(), Mode: []string{"replace", "keep-append", "drop-one", "cover", "rewrap", "as-plain"}[rng.Intn(6)], Via: []string{"create", "update"}[rng.Intn(2)], Fault: faults[rng.Intn(len(faults))]}
		}
	}
	x := rng.Intn(100)
	switch {
	case x < 14:
		return op{Kind: "create", A: pickFile(), Mode: []string{"", "with-manifest", "with-covered-chunk"}[rng.Intn(3)], N: 2 + rng.Intn(2)}
	case x < 40:
		return op{Kind: "overwrite", A: exFile(), Mode: []string{"replace", "keep-append", "drop-one", "cover", "rewrap", "rewrap", "as-plain"}[rng.Intn(7)], Via: []string{"create", "update"}[rng.Intn(2)]}
	case x < 48:
		return op{Kind: "append", A: exFile(), N: 1 + rng.Intn(2)}
	case x < 62:
		return op{Kind: "link", A: exFile(), B: pickFile()}
	case x < 76:
		if rng.Intn(4) == 0 {
			pair := [][2]string{{"/d", "/e/d"}, {"/e/d", "/d"}, {"/d/s", "/e/s"}, {"/e/s", "/d/s"}}[rng.Intn(4)]
			return op{Kind: "rename", A: pair[0], B: pair[1]}
		}
		return op{Kind: "rename", A: exFile(), B: pickFile()}
	case x < 92:
		p := exFile()
		if rng.Intn(5) == 0 && len(exAll) > 0 {
			p = exAll[rng.Intn(len(exAll))]
		}
		return op{Kind: "delete", A: p, Mode: []string{"data", "mount", "mount", "nodata"}[rng.Intn(4)]}
	case x < 96:
		return op{Kind: "mkparts"}
	default:
		return op{Kind: "adopt", A: pickFile()}
	}
}

func runBatch(r *lib.Run, mode, kind string, shard, nshards, sampleOneIn int) {
	bm := lib.StartBlobMaster(r)
	defer bm.Stop()
	w := &world{r: r, kind: kind, bm: bm, stats: map[string]int64{}, tainted: map[string]bool{}}
	switch mode {
	case "exh":
		alpha := alphabet()
		L := r.Pick(3, 4) // after the fixed first op create(/d/f1)
		n := len(alpha)
		tot := 1
		for i := 0; i < L; i++ {
			tot *= n
		}
		rng := r.SubRng("c20-exh-sample-" + kind)
		for idx := 0; idx < tot; idx++ {
			keep := sampleOneIn <= 1 || rng.Intn(sampleOneIn) == 0
			if idx%nshards != shard || !keep {
				continue
			}
			ops := []op{{Kind: "create", A: "/d/f1", N: 2}}
			x := idx
			tail := make([]op, L)
			for i := L - 1; i >= 0; i-- {
				tail[i] = alpha[x%n]
				x /= n
			}
			ops = append(ops, tail...)
			w.runSeq(ops)
			r.Count("sequences_exhaustive", 1)
			key := kind
			for _, o := range ops {
				key += "|" + o.short()
			}
			r.Nontrivial(key)
			if idx%4093 == 0 {
				r.Sample(map[string]interface{}{"store": kind, "ops": ops})
			}
			if r.Violations() > 20 {
				break
			}
		}
		r.Note("exhaustive", fmt.Sprintf("create(/d/f1) followed by every sequence of %d ops over a %d-op alphabet, sampled 1 in %d (ops whose target does not exist are skipped)", L, n, sampleOneIn))
	case "rand":
		nseq, nops := r.Pick(60, 500), r.Pick(50, 60)
		rng := r.SubRng("c20-rand-" + kind)
		for s := 0; s < nseq; s++ {
			seed := rng.Int63()
			if s%nshards != shard {
				continue
			}
			srng := rand.New(rand.NewSource(seed))
			w.startCase(nops)
			var ops []op
			for i := 0; i < nops; i++ {
				o := randomOp(srng, w)
				ops = append(ops, o)
				r.Case(map[string]interface{}{"store": kind, "ops": ops})
				if !w.step(o) {
					break
				}
			}
			r.Count("sequences_random", 1)
			key := kind
			for _, o := range ops {
				key += "|" + o.short()
			}
			r.Nontrivial(key)
			if s == 0 {
				r.Sample(map[string]interface{}{"store": kind, "random_sequence_prefix": ops[:12]})
			}
			if r.Violations() > 20 {
				break
			}
		}
	case "threshold":
		w.thresholdCase()
		r.Nontrivial(kind + "|threshold")
	}
	r.Count("manifest_blob_reads_by_filer", bm.BlobReads())
	r.Count("file_ids_reaching_volume_stub", bm.BatchDeleted())
	r.Note("rpcs_by_label_and_target", w.stats)
	r.Finish(0)
}

func main() {
	r := lib.Start("C20", "exploration")
	r.SetRule("sequences of create (plain / with manifest chunk / with a covered chunk), overwrite through CreateEntry or UpdateEntry (replace, keep+append, drop one, cover, re-wrap data chunks into a new manifest, replace a hard-linked name by a plain file), AppendToEntry, hard link (UpdateEntry old + CreateEntry new), AtomicRenameEntry of files and directories incl. onto existing files, DeleteEntry with/without data deletion (mount rule counter<=1, recursive for directories), S3-style adoption of part chunks followed by a data-less delete of the parts, and refused requests (directory created over a file, O_EXCL create of an existing file, overwrites/appends/deletes with one store call made to fail through the counting store); on a real Filer over leveldb/leveldb2/leveldb3 with the chunk-deletion hook observing both sinks. Judged after every RPC against the references read back from the live namespace. distinct = distinct (store, op sequence); every sequence starts with a successful create, so all are non-trivial")
	r.Assume("referenced = reachable from an entry that FindEntry shows (hard links resolved through the KV record), manifests expanded from the blobs the harness blob server holds")
	r.Assume("requests that 'request data deletion': DeleteEntry with IsDeleteData=true and every request that replaces the chunk list of an existing file (CreateEntry/UpdateEntry/AppendToEntry, rename onto an existing file; a rename to a free name does not); DeleteEntry with IsDeleteData=false only has clause 1 checked")
	r.Assume("clients never construct two plain entries that share a chunk except the way S3 CompleteMultipartUpload does (adopt, then remove the parts without data deletion), and never un-wrap or nest manifests: the filer has no chunk reference counts by design")

	mode, kind, shard, nshards, sample := "", "leveldb", 0, 1, 1
	if len(r.Args) >= 5 {
		mode, kind = r.Args[0], r.Args[1]
		shard, _ = strconv.Atoi(r.Args[2])
		nshards, _ = strconv.Atoi(r.Args[3])
		sample, _ = strconv.Atoi(r.Args[4])
	}
	if r.Replay != "" {
		var d struct {
			Store   string `json:"store"`
			History []op   `json:"history"`
		}
		r.Must(r.LoadReplay(&d), "load replay")
		bm := lib.StartBlobMaster(r)
		w := &world{r: r, kind: d.Store, bm: bm, stats: map[string]int64{}, tainted: map[string]bool{}}
		if len(d.History) > 0 && d.History[0].Kind == "threshold" {
			w.thresholdCase()
		} else {
			w.runSeq(d.History)
		}
		r.Nontrivial("replay")
		r.Nontrivial("replay2")
		r.Finish(0)
	}
	if mode != "" {
		runBatch(r, mode, kind, shard, nshards, sample)
		return
	}
	self := os.Getenv("VERIF_SELF")
	if self == "" {
		self, _ = os.Executable()
	}
	type job struct {
		label string
		args  []string
	}
	var jobs []job
	exhShards := r.Pick(2, 6)
	for s := 0; s < exhShards; s++ {
		jobs = append(jobs, job{fmt.Sprintf("exh-leveldb-%d", s), []string{"exh", "leveldb", fmt.Sprint(s), fmt.Sprint(exhShards), fmt.Sprint(r.Pick(10, 30))}})
	}
	for _, k := range []string{"leveldb2", "leveldb3"} {
		jobs = append(jobs, job{"exh-" + k, []string{"exh", k, "0", "1", fmt.Sprint(r.Pick(60, 180))}})
	}
	for _, k := range lib.FilerStoreKinds {
		jobs = append(jobs, job{"rand-" + k, []string{"rand", k, "0", "1", "1"}})
	}
	jobs = append(jobs, job{"threshold-leveldb", []string{"threshold", "leveldb", "0", "1", "1"}})
	sem := make(chan struct{}, r.Pick(4, 6))
	var wg sync.WaitGroup
	for _, j := range jobs {
		wg.Add(1)
		sem <- struct{}{}
		go func(j job) {
			defer wg.Done()
			defer func() { <-sem }()
			r.RunChild(j.label, self, []string{"GOMAXPROCS=2"}, j.args...)
		}(j)
	}
	wg.Wait()
	var hits, rpcs, unref, blobReads int64
	for _, j := range jobs {
		hits += r.Counter(j.label + ".sink_hits")
		rpcs += r.Counter(j.label + ".rpcs")
		unref += r.Counter(j.label + ".chunks_unreferenced_by_deleting_rpcs")
		blobReads += r.Counter(j.label + ".manifest_blob_reads_by_filer")
	}
	r.Count("total_sink_hits", hits)
	r.Count("total_rpcs", rpcs)
	r.Count("total_chunks_unreferenced_by_deleting_rpcs", unref)
	r.Count("total_manifest_blob_reads_by_filer", blobReads)
	var refused, faulted int64
	for _, j := range jobs {
		refused += r.Counter(j.label + ".rpcs_refused_while_chunks_referenced")
		faulted += r.Counter(j.label + ".rpcs_with_injected_store_fault")
	}
	r.Count("total_rpcs_refused_while_chunks_referenced", refused)
	r.Count("total_rpcs_with_injected_store_fault", faulted)
	if refused == 0 || faulted == 0 {
		r.Inconclusive("no refused request / no injected store fault was observed")
	}
	if hits == 0 || unref == 0 || blobReads == 0 {
		r.Inconclusive("the chunk-deletion hook was never reached, no chunk ever lost its last reference, or the filer never resolved a manifest")
	}
	r.Finish(100)
}
