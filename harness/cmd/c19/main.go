// C19 — Directory listings are exact, ordered and paginate completely.
// Every subset of an 8-name universe (with some entries expired) is a directory in a
// real filer over leveldb / leveldb2 / leveldb3 and over a harness in-memory store
// without native prefix listing. Requests (start, inclusive, limit, prefix | pattern,
// exclusion) go through Filer.StreamListDirectoryEntries, Filer.ListDirectoryEntries and
// the real gRPC ListEntries handler; each page and each full pagination is compared with
// sort(filter(names)). Every store call is counted: a listing that does not finish within
// a logical step budget is a violation by step count.
package main

import (
	"context"
	"errors"
	"fmt"
	"math/rand"
	"os"
	"path/filepath"
	"runtime/pprof"
	"sort"
	"strings"
	"sync"
	"time"

	"google.golang.org/grpc"

	"github.com/chrislusf/seaweedfs/weed/filer"
	"github.com/chrislusf/seaweedfs/weed/pb/filer_pb"
	weed_server "github.com/chrislusf/seaweedfs/weed/server"
	"github.com/chrislusf/seaweedfs/weed/util"

	"verifharness/lib"
)

var ctx = context.Background()

// ------------------------------------------------------------------ request space

// universe in byte order: '.'=2e '?'=3f 'a'=61 'b'=62
var universe = []string{"?b", "a", "a.b", "a?", "ab", "abc", "b", "bb"}

// start names: "", every name, and names strictly between / before / after them
var starts = []string{"", "?b", "a", "a.b", "a?", "ab", "abc", "b", "bb", "0", "a!", "aa", "abd", "ba", "c"}
var limits = []int64{1, 2, 3, 4, 1024}
var prefixes = []string{"", "a", "ab", "abc", "abcd", "a.", "a?", "b", "?", "c"}
var patterns = []string{"*", "a*", "*b", "a*c", "a?c", "a?", "?b*", "a?*", "ab", "zz", "[ab]*", "a[bc]"}
var excludes = []string{"", "*b"}
var apis = []string{"stream", "slice"}

type filter struct{ Prefix, Pattern string }

var filters []filter

func init() {
	for _, p := range prefixes {
		filters = append(filters, filter{Prefix: p})
	}
	for _, p := range patterns {
		filters = append(filters, filter{Pattern: p})
	}
}

type request struct {
	Api       string `json:"api"` // stream | slice | grpc
	Start     string `json:"start"`
	Inclusive bool   `json:"inclusive"`
	Limit     int64  `json:"limit"`
	Prefix    string `json:"prefix"`
	Pattern   string `json:"pattern"`
	Exclude   string `json:"exclude"`
}

func spaceSize() int { return len(starts) * 2 * len(limits) * len(filters) * len(excludes) * len(apis) }

func requestAt(i int) request {
	var q request
	q.Api = apis[i%len(apis)]
	i /= len(apis)
	q.Exclude = excludes[i%len(excludes)]
	i /= len(excludes)
	f := filters[i%len(filters)]
	q.Prefix, q.Pattern = f.Prefix, f.Pattern
	i /= len(filters)
	q.Limit = limits[i%len(limits)]
	i /= len(limits)
	q.Inclusive = i%2 == 1
	i /= 2
	q.Start = starts[i%len(starts)]
	return q
}

// dirSpec is one directory: which names exist, which of them are expired, which live ones carry a TTL.
type dirSpec struct {
	Index   int      `json:"index"`
	Path    string   `json:"path"`
	Names   []string `json:"names"`
	Expired []string `json:"expired"`
	LiveTtl []string `json:"live_ttl"`
	SubDirs []string `json:"sub_dirs"`
}

func has(list []string, s string) bool {
	for _, x := range list {
		if x == s {
			return true
		}
	}
	return false
}

func makeDir(seedRng func(string) *rand.Rand, idx int, variant int) dirSpec {
	d := dirSpec{Index: idx}
	if idx%2 == 0 {
		d.Path = fmt.Sprintf("/c19/v%d/s%03d", variant, idx)
	} else {
		d.Path = fmt.Sprintf("/buckets/bkt%d/s%03d", variant, idx) // leveldb3 keeps these in a per-bucket db
	}
	rng := seedRng(fmt.Sprintf("c19-dir-%d-%d", variant, idx))
	mode := rng.Intn(4) // 0: nothing expired, 1-2: each entry with p=1/3, 3: p=2/3
	for i, n := range universe {
		if idx&(1<<uint(i)) == 0 {
			continue
		}
		d.Names = append(d.Names, n)
		p := []int{0, 1, 1, 2}[mode]
		switch {
		case rng.Intn(3) < p:
			d.Expired = append(d.Expired, n)
		case rng.Intn(4) == 0:
			d.LiveTtl = append(d.LiveTtl, n)
		case rng.Intn(4) == 0:
			d.SubDirs = append(d.SubDirs, n)
		}
	}
	return d
}

func (d *dirSpec) entry(name string) *filer.Entry {
	e := &filer.Entry{FullPath: util.FullPath(d.Path).Child(name)}
	e.Mode = 0644
	e.Mtime = time.Unix(1600000000, 0)
	e.Crtime = time.Unix(1600000000, 0)
	switch {
	case has(d.Expired, name):
		e.TtlSec = 60
		e.Crtime = time.Unix(1000000000, 0) // expired since 2001
	case has(d.LiveTtl, name):
		e.TtlSec = 10 * 365 * 86400
		e.Crtime = time.Now() // lives another ten years
	case has(d.SubDirs, name):
		e.Mode = os.ModeDir | 0755
	}
	return e
}

// ------------------------------------------------------------------ reference

func (d *dirSpec) matching(q request) []string {
	var out []string
	for _, n := range d.Names {
		if has(d.Expired, n) || !strings.HasPrefix(n, q.Prefix) {
			continue
		}
		if q.Pattern != "" {
			if ok, _ := filepath.Match(q.Pattern, n); !ok {
				continue
			}
		}
		if q.Exclude != "" {
			if ok, _ := filepath.Match(q.Exclude, n); ok {
				continue
			}
		}
		out = append(out, n)
	}
	sort.Strings(out)
	return out
}

func after(names []string, start string, inclusive bool) []string {
	var out []string
	for _, n := range names {
		if n > start || (n == start && inclusive) {
			out = append(out, n)
		}
	}
	return out
}

func firstN(names []string, n int64) []string {
	if int64(len(names)) > n {
		return names[:n]
	}
	return names
}

// literalHead is the part of the request that every match must start with: the prefix,
// or the pattern up to its first meta character.
func literalHead(q request) string {
	if q.Pattern == "" {
		return q.Prefix
	}
	if i := strings.IndexAny(q.Pattern, "*?[\\"); i >= 0 {
		return q.Pattern[:i]
	}
	return q.Pattern
}

func patternClass(p string) string {
	switch {
	case p == "":
		return "none"
	case !strings.ContainsAny(p, "*?[\\"):
		return "literal"
	case strings.Contains(p, "["):
		return "bracket"
	}
	star, q := strings.Index(p, "*"), strings.Index(p, "?")
	switch {
	case q < 0:
		return "star"
	case star < 0:
		return "qmark-no-star"
	case q < star:
		return "qmark-before-star"
	}
	return "star-before-qmark"
}

func startClass(q request) string {
	h := literalHead(q)
	switch {
	case q.Start == "":
		return "empty"
	case h != "" && q.Start < h:
		return "before-prefix"
	}
	return "other"
}

// judge classifies the first discrepancy between a returned enumeration and the expected one.
// got are names in the order delivered; paths their full paths; limit <= 0 means unbounded.
func judge(d *dirSpec, q request, start string, inclusive bool, limit int64, got []string, paths []string, want []string) (class, msg string) {
	match := d.matching(q)
	seen := map[string]bool{}
	for i, n := range got {
		if paths != nil && paths[i] != string(util.FullPath(d.Path).Child(n)) {
			return "foreign-entry", fmt.Sprintf("entry %q is not a child of %s", paths[i], d.Path)
		}
		if !has(d.Names, n) {
			return "unknown-entry", fmt.Sprintf("%q was never created in %s", n, d.Path)
		}
		if has(d.Expired, n) {
			return "expired-entry", fmt.Sprintf("%q is expired", n)
		}
		if !has(match, n) {
			return "non-matching-entry", fmt.Sprintf("%q does not match the request", n)
		}
		if n < start || (n == start && !inclusive) {
			return "start-not-respected", fmt.Sprintf("%q is not after start %q (inclusive=%v)", n, start, inclusive)
		}
		if seen[n] {
			return "duplicate", fmt.Sprintf("%q returned twice", n)
		}
		seen[n] = true
		if i > 0 && got[i-1] >= n {
			return "out-of-order", fmt.Sprintf("%q after %q", n, got[i-1])
		}
	}
	if limit > 0 && int64(len(got)) > limit {
		return "over-limit", fmt.Sprintf("%d entries for limit %d", len(got), limit)
	}
	if strings.Join(got, "\x00") != strings.Join(want, "\x00") || len(got) != len(want) {
		return "missing-entry", fmt.Sprintf("got %q want %q", got, want)
	}
	return "", ""
}

// ------------------------------------------------------------------ world

type world struct {
	r        *lib.Run
	kind     string
	counting *lib.CountingFilerStore
	f        *filer.Filer
	fs       *weed_server.FilerServer
	evals    int64
	// observations accumulated over all calls of the current request
	reqRestarts, reqPrefixed int64
}

func family(kind string) string {
	if strings.HasPrefix(kind, "leveldb") {
		return "leveldb"
	}
	return "mem"
}

func (w *world) open() {
	dir := ""
	if w.kind != lib.MemNoPrefixKind {
		dir = w.r.SubDir("c19-" + w.kind)
	}
	s, err := lib.OpenFilerStore(w.kind, dir)
	w.r.Must(err, "open "+w.kind)
	w.counting = lib.NewCountingFilerStore(s)
	w.f = lib.NewBareFiler(w.counting)
	w.fs = weed_server.VerifNewFilerServer(w.f, &weed_server.FilerOption{DirListingLimit: 100000}, false, nil)
}

func (w *world) populate(d *dirSpec) {
	for _, n := range d.Names {
		w.r.Must(w.f.Store.InsertEntry(ctx, d.entry(n)), "insert")
	}
}

// reinsertExpired puts back the expired entries that an earlier listing has deleted.
func (w *world) reinsertExpired(d *dirSpec) {
	for _, n := range d.Expired {
		w.r.Must(w.f.Store.InsertEntry(ctx, d.entry(n)), "re-insert expired")
	}
}

type listStream struct {
	grpc.ServerStream
	names, paths []string
	dir          string
}

func (s *listStream) Context() context.Context { return ctx }
func (s *listStream) Send(resp *filer_pb.ListEntriesResponse) error {
	s.names = append(s.names, resp.Entry.Name)
	s.paths = append(s.paths, string(util.FullPath(s.dir).Child(resp.Entry.Name)))
	return nil
}

type pageResult struct {
	names, paths []string
	last         string // lastFileName returned by the stream API
	hasMore      bool
	err          error
}

// call performs one listing call of the real code.
func (w *world) call(d *dirSpec, q request, start string, inclusive bool, budget int64) (p pageResult, exceeded bool) {
	w.counting.Begin(budget)
	defer func() {
		_, prefixed, ex := w.counting.Calls()
		exceeded = ex
		w.reqPrefixed += prefixed
		w.reqRestarts += w.counting.Restarts()
	}()
	collect := func(e *filer.Entry) bool {
		p.names = append(p.names, e.Name())
		p.paths = append(p.paths, string(e.FullPath))
		return true
	}
	switch q.Api {
	case "stream":
		p.last, p.err = w.f.StreamListDirectoryEntries(ctx, util.FullPath(d.Path), start, inclusive, q.Limit, q.Prefix, q.Pattern, q.Exclude, collect)
	case "slice":
		var es []*filer.Entry
		es, p.hasMore, p.err = w.f.ListDirectoryEntries(ctx, util.FullPath(d.Path), start, inclusive, q.Limit, q.Prefix, q.Pattern, q.Exclude)
		for _, e := range es {
			collect(e)
		}
	case "grpc":
		st := &listStream{dir: d.Path}
		p.err = w.fs.ListEntries(&filer_pb.ListEntriesRequest{Directory: d.Path, Prefix: q.Prefix, StartFromFileName: start,
			InclusiveStartFrom: inclusive, Limit: uint32(q.Limit)}, st)
		p.names, p.paths = st.names, st.paths
	}
	return
}

func (w *world) sig(d *dirSpec, q request, op, class string) lib.Sig {
	pf := "unused"
	if w.kind == lib.MemNoPrefixKind && w.reqPrefixed > 0 {
		pf = "used" // the wrapper's generic prefixFilterEntries path ran in this request
	}
	restart := "no"
	if w.reqRestarts > 0 {
		restart = "yes" // a continuation call to the store started from the empty name again
	}
	exp, exc := "none", "none"
	if len(d.Expired) > 0 {
		exp = "in-dir"
	}
	if q.Exclude != "" {
		exc = "set"
	}
	return lib.Sig{"op": op, "api": q.Api, "class": class, "store": w.kind, "family": family(w.kind), "start": startClass(q),
		"pattern": patternClass(q.Pattern), "prefixfilter": pf, "restart": restart, "expired": exp, "exclude": exc}
}

func (w *world) report(d *dirSpec, q request, op, class, msg string, extra map[string]interface{}) {
	detail := map[string]interface{}{"store": w.kind, "dir": d, "request": q, "msg": msg}
	for k, v := range extra {
		detail[k] = v
	}
	w.r.Violation(w.sig(d, q, op, class), detail)
}

func errClass(err error, exceeded bool) string {
	if exceeded || errors.Is(err, lib.ErrListStepBudget) || (err != nil && strings.Contains(err.Error(), lib.ErrListStepBudget.Error())) {
		return "no-progress"
	}
	return "error"
}

// runRequest executes one request: first page, then the full pagination that follows the
// last returned name. Returns false when a violation (listed or not) was seen.
func (w *world) runRequest(d *dirSpec, q request) bool {
	r := w.r
	n := int64(len(d.Names))
	perCall := 4*(n+2) + 8
	if len(d.Expired) > 0 && w.counting.TakeDeletes() > 0 {
		w.reinsertExpired(d) // an earlier listing deleted expired entries: put them back
		w.r.Count("expired_entries_put_back", int64(len(d.Expired)))
	}
	match := d.matching(q)
	all := after(match, q.Start, q.Inclusive)

	w.reqRestarts, w.reqPrefixed = 0, 0
	if q.Api == "grpc" {
		p, exceeded := w.call(d, q, q.Start, q.Inclusive, (n+3)*perCall)
		w.evals++
		if p.err != nil || exceeded {
			w.report(d, q, "list", errClass(p.err, exceeded), fmt.Sprint("ListEntries: ", p.err), nil)
			return false
		}
		want := firstN(all, q.Limit)
		if class, msg := judge(d, q, q.Start, q.Inclusive, q.Limit, p.names, p.paths, want); class != "" {
			w.report(d, q, "list", class, msg, map[string]interface{}{"got": p.names, "want": want})
			return false
		}
		return true
	}

	// first page
	p, exceeded := w.call(d, q, q.Start, q.Inclusive, perCall)
	w.evals++
	if p.err != nil || exceeded {
		w.report(d, q, "list", errClass(p.err, exceeded), fmt.Sprint("listing: ", p.err), nil)
		return false
	}
	want := firstN(all, q.Limit)
	if class, msg := judge(d, q, q.Start, q.Inclusive, q.Limit, p.names, p.paths, want); class != "" {
		w.report(d, q, "list", class, msg, map[string]interface{}{"got": p.names, "want": want, "returned_last_name": p.last})
		return false
	}
	if q.Api == "slice" {
		w.evals++
		remaining := int64(len(all)) > q.Limit
		if remaining && !p.hasMore {
			w.report(d, q, "list", "has-more-false-with-remaining", fmt.Sprintf("hasMore=false although %d matches follow the page", int64(len(all))-q.Limit), nil)
			return false
		}
		if !remaining && p.hasMore {
			r.Count("has_more_true_with_nothing_left", 1)
		}
	}
	if len(p.names) == 0 {
		return true
	}
	// pagination: follow the last returned name until an empty page
	got := append([]string{}, p.names...)
	paths := append([]string{}, p.paths...)
	pages := int64(1)
	for {
		if pages > n+3 {
			w.report(d, q, "paginate", "no-progress", fmt.Sprintf("%d pages and still not at the end", pages), map[string]interface{}{"got": got})
			return false
		}
		last := got[len(got)-1]
		np, exceeded := w.call(d, q, last, false, perCall)
		pages++
		if np.err != nil || exceeded {
			w.report(d, q, "paginate", errClass(np.err, exceeded), fmt.Sprint("page ", pages, ": ", np.err), map[string]interface{}{"got": got})
			return false
		}
		if int64(len(np.names)) > q.Limit {
			w.report(d, q, "paginate", "over-limit", fmt.Sprintf("page %d has %d entries for limit %d", pages, len(np.names), q.Limit), nil)
			return false
		}
		if len(np.names) == 0 {
			break
		}
		got = append(got, np.names...)
		paths = append(paths, np.paths...)
	}
	w.evals++
	r.Count("pages_followed", pages)
	if class, msg := judge(d, q, q.Start, q.Inclusive, 0, got, paths, all); class != "" {
		w.report(d, q, "paginate", class, msg, map[string]interface{}{"got": got, "want": all, "pages": pages})
		return false
	}
	return true
}

// nontrivial: the request has at least one match to return and at least one child it must not return.
func nontrivial(d *dirSpec, q request) bool {
	all := after(d.matching(q), q.Start, q.Inclusive)
	return len(all) > 0 && int64(len(d.Names)) > min64(int64(len(all)), q.Limit)
}

func min64(a, b int64) int64 {
	if a < b {
		return a
	}
	return b
}

func (w *world) runDir(d *dirSpec, reqIdx []int, grpcToo bool) {
	r := w.r
	// one case record per directory (a record per request costs more than the requests themselves);
	// a crash is attributed to the directory and its request indices, requestAt(i) rebuilds each request
	r.Case(map[string]interface{}{"store": w.kind, "dir": d, "request_indices": reqIdx})
	w.populate(d)
	w.counting.TakeDeletes()
	for _, i := range reqIdx {
		q := requestAt(i)
		ok := w.runRequest(d, q)
		w.account(d, q, i)
		// the same request through the real gRPC ListEntries handler (it takes start, inclusive, limit, prefix only)
		if ok && grpcToo && q.Api == "stream" && q.Pattern == "" && q.Exclude == "" {
			g := q
			g.Api = "grpc"
			w.runRequest(d, g)
			r.Count("grpc_requests", 1)
		}
		if r.Violations() > 40 {
			return
		}
	}
}

func (w *world) account(d *dirSpec, q request, i int) {
	r := w.r
	r.Count("requests", 1)
	if len(d.Expired) > 0 {
		r.Count("requests_on_dirs_with_expired_entries", 1)
	}
	if nontrivial(d, q) {
		r.Count("nontrivial_requests", 1)
		key := fmt.Sprintf("%s|%d", d.Path, i)
		if w.r.Quick() || (i+d.Index)%4 == 0 {
			r.Nontrivial(key)
		}
	}
}

func runStore(r *lib.Run, kind string) {
	w := &world{r: r, kind: kind}
	w.open()
	variants := r.Pick(1, 2) // thorough: every subset twice with different expiry assignments
	per := r.Pick(96, 400) // requests sampled per directory (of spaceSize()), a different sample per store
	total := spaceSize()
	for v := 0; v < variants; v++ {
		for idx := 0; idx < 256; idx++ {
			d := makeDir(r.SubRng, idx, v)
			rng := r.SubRng(fmt.Sprintf("c19-req-%s-%d-%d", kind, v, idx))
			reqIdx := make([]int, 0, per)
			if per >= total {
				for i := 0; i < total; i++ {
					reqIdx = append(reqIdx, i)
				}
			} else {
				for len(reqIdx) < per {
					reqIdx = append(reqIdx, rng.Intn(total))
				}
			}
			w.runDir(&d, reqIdx, true)
			if idx == 0xb7 && v == 0 && kind == "leveldb" {
				r.Sample(map[string]interface{}{"store": kind, "dir": d, "first_requests": []request{requestAt(reqIdx[0]), requestAt(reqIdx[1]), requestAt(reqIdx[2])}})
			}
			if r.Violations() > 40 {
				break
			}
		}
	}
	r.Eval(int(w.evals))
	r.Count("store_list_calls", w.counting.TotalListCalls)
	r.Note("request_space_per_directory", total)
	r.Note("requests_sampled_per_directory", per)
	r.Note("directories", 256*variants)
	w.f.Store.Shutdown()
}

func main() {
	if p := os.Getenv("VERIF_CPUPROFILE"); p != "" {
		f, _ := os.Create(p)
		_ = pprof.StartCPUProfile(f)
	}
	r := lib.Start("C19", "exploration")
	r.SetRule("directories = all 256 subsets of the names {?b,a,a.b,a?,ab,abc,b,bb} (thorough: twice), per directory a seeded assignment of expired entries (TTL 60 s, created 2001), live entries with a 10-year TTL and sub-directories; requests = seeded sample of the product start(15: empty, each name, names between/before/after) x inclusive(2) x limit{1,2,3,4,1024} x (prefix(10) | pattern(12: *, a*, *b, a*c, a?c, a?, ?b*, a?*, literals, [ab]*, a[bc])) x exclude{none,*b} x api{StreamListDirectoryEntries, ListDirectoryEntries}, plus the real gRPC ListEntries handler for prefix-only requests; stores leveldb, leveldb2, leveldb3 (odd subsets under /buckets/ = per-bucket db) and an in-memory store answering ErrUnsupportedListDirectoryPrefixed; first page and the pagination that follows the last returned name are compared with sort(filter(names)). distinct = (directory, request index); non-trivial = at least one match to return and at least one child that must not be returned")
	r.Assume("prefix and namePattern are not combined in one request (filer_search.go documents them as mutually exclusive and no caller combines them)")
	r.Assume("pattern semantics are path/filepath.Match on the whole name (what the code itself applies to the exclusion pattern)")
	r.Assume("expired entries are decades past their TTL, live TTL entries have ten years left: no oracle reads the clock")
	r.Assume("hasMore=true with nothing left (one extra empty page for the client) is counted, not judged")

	if r.Replay != "" {
		var d struct {
			Store   string  `json:"store"`
			Dir     dirSpec `json:"dir"`
			Request request `json:"request"`
		}
		r.Must(r.LoadReplay(&d), "load replay")
		w := &world{r: r, kind: d.Store}
		w.open()
		w.populate(&d.Dir)
		ok := w.runRequest(&d.Dir, d.Request)
		fmt.Printf("replay: store=%s request=%+v ok=%v\n", d.Store, d.Request, ok)
		r.Eval(int(w.evals))
		r.Finish(0)
	}
	if len(r.Args) == 2 && r.Args[0] == "store" {
		runStore(r, r.Args[1])
		pprof.StopCPUProfile()
		r.Finish(0)
	}
	self := os.Getenv("VERIF_SELF")
	if self == "" {
		self = os.Args[0]
	}
	kinds := append(append([]string{}, lib.EmbeddedFilerStoreKinds...), lib.MemNoPrefixKind)
	var wg sync.WaitGroup
	for _, kind := range kinds {
		wg.Add(1)
		go func(kind string) {
			defer wg.Done()
			r.RunChild(kind, self, nil, "store", kind)
		}(kind)
	}
	wg.Wait()
	for _, kind := range kinds {
		if r.Counter(kind+".requests") == 0 || r.Counter(kind+".pages_followed") == 0 || r.Counter(kind+".requests_on_dirs_with_expired_entries") == 0 || r.Counter(kind+".grpc_requests") == 0 {
			r.Inconclusive("store " + kind + ": no requests / paginations / expired-entry directories / gRPC requests executed")
		}
	}
	r.Finish(r.Pick(8000, 20000))
}
