// C01 — Volume blob store: read-your-writes, overwrite, delete, cookie.
// Drives a real storage.Store/Volume in a temp dir with bounded-exhaustive and
// random histories and compares every read with a reference blob model.
package main

import (
	"bytes"
	"encoding/json"
	"fmt"
	"math/rand"
	"os"
	"time"

	"github.com/chrislusf/seaweedfs/weed/storage"
	"github.com/chrislusf/seaweedfs/weed/storage/needle"
	"github.com/chrislusf/seaweedfs/weed/storage/types"

	"verifharness/lib"
)

type op struct {
	Kind   string       `json:"kind"` // W D R RO RW REOPEN
	K      int          `json:"k,omitempty"`
	Cookie uint32       `json:"cookie,omitempty"`
	Blob   lib.BlobSpec `json:"blob,omitempty"`
}

type mstate struct {
	kind   int // 0 absent, 1 live, 2 deleted
	cookie uint32
	blob   lib.BlobSpec
	lm     uint64
	reopened bool // the store was reopened since the last successful write/delete of this key
}

type world struct {
	r        *lib.Run
	dir      string
	kind     storage.NeedleMapKind
	store    *storage.Store
	vid      needle.VolumeId
	base     uint64 // cursor of the ascending (newest) key region
	late     uint64 // cursor of the late region: keys far below the newest ones (out-of-order arrivals)
	cur      uint64 // base of the running sequence
	written  int    // distinct keys written on this volume
	readonly bool
	model    map[uint64]*mstate
	nseq     int
}

var cookies = []uint32{0x1234abcd, 0x0badf00d}

func (w *world) open() {
	w.store = lib.OpenStore(w.dir, w.kind)
}

func (w *world) freshVolume() {
	if w.store != nil {
		w.store.Close()
	}
	w.dir = w.r.SubDir("vol")
	w.open()
	w.vid = 1
	err := w.store.AddVolume(w.vid, "", w.kind, "000", "", 0, 0, types.HardDriveType)
	w.r.Must(err, "AddVolume")
	w.readonly = false
	w.model = make(map[uint64]*mstate)
	w.nseq = 0
	// Every third sequence works on keys of the late region, which lies below everything
	// written so far on this volume: once a compact-map section holds more than 128 entries
	// such keys live in its overflow list (in-memory needle map), a path ascending key
	// allocation never reaches.
	w.late = w.base + 16
	w.base += 1 << 16
	w.written = 0
}

func kindName(k storage.NeedleMapKind) string {
	if k == storage.NeedleMapInMemory {
		return "memory"
	}
	return "leveldb"
}

func (w *world) get(key uint64) *mstate {
	s := w.model[key]
	if s == nil {
		s = &mstate{}
		w.model[key] = s
	}
	return s
}

func inputClass(s *mstate, b *lib.BlobSpec) string {
	if b != nil && len(b.Data) == 0 {
		return "empty-payload"
	}
	if s != nil && s.kind != 0 && len(s.blob.Data) == 0 {
		return "empty-payload" // the live blob, or the blob that was deleted, is zero-length
	}
	return "nonempty"
}

// apply executes one op on the real volume and on the model, returns false on violation.
func (w *world) apply(o op, hist []op) bool {
	r := w.r
	ok := true
	key := w.cur + uint64(o.K)
	viol := func(sig lib.Sig, msg string, extra interface{}) {
		sig["map"] = kindName(w.kind)
		if r.Violation(sig, map[string]interface{}{"msg": msg, "history": hist, "op": o, "extra": extra, "map": kindName(w.kind)}) {
			ok = false
		}
	}
	switch o.Kind {
	case "W":
		s := w.get(key)
		b := o.Blob
		b.Key, b.Cookie = key, o.Cookie
		n := lib.MakeNeedle(b, uint64(time.Now().Unix()))
		lm := n.LastModified
		unchanged, err := w.store.WriteVolumeNeedle(w.vid, n, false)
		r.Eval(1)
		switch {
		case w.readonly:
			if err == nil {
				viol(lib.Sig{"op": "write", "class": "accepted-on-readonly"}, "write accepted on a read-only volume", nil)
			}
		case err != nil:
			r.Count("write_rejected", 1)
			if s.kind == 0 {
				r.Count("write_rejected_on_absent_key", 1)
			}
		case unchanged:
			if !(s.kind == 1 && s.cookie == o.Cookie && bytes.Equal(s.blob.Data, b.Data)) {
				viol(lib.Sig{"op": "write", "class": "unchanged-but-different", "input": inputClass(s, &b)}, "write reported unchanged although stored blob differs", nil)
			}
			r.Count("write_unchanged", 1)
		default:
			if s.kind == 1 && s.cookie != o.Cookie && len(s.blob.Data) > 0 {
				viol(lib.Sig{"op": "write", "class": "cookie-mismatch-accepted"}, "overwrite with a different cookie accepted", nil)
			}
			if s.kind == 1 && s.cookie != o.Cookie && len(s.blob.Data) == 0 {
				viol(lib.Sig{"op": "write", "class": "cookie-mismatch-accepted", "input": "empty-payload"}, "overwrite of an empty blob with a different cookie accepted", nil)
			}
			if s.kind == 0 {
				w.written++
			}
			s.kind, s.cookie, s.blob, s.lm = 1, o.Cookie, b, lm&((1<<40)-1)
			s.reopened = false
			r.Count("write_ok", 1)
		}
	case "D":
		s := w.get(key)
		n := &needle.Needle{Id: types.NeedleId(key), Cookie: types.Cookie(s.cookie)}
		_, err := w.store.DeleteVolumeNeedle(w.vid, n)
		r.Eval(1)
		if w.readonly {
			if err == nil && s.kind == 1 {
				viol(lib.Sig{"op": "delete", "class": "accepted-on-readonly"}, "delete accepted on a read-only volume", nil)
			}
		} else if err == nil && s.kind == 1 {
			s.kind = 2
			s.reopened = false
			r.Count("delete_ok", 1)
		}
	case "RO":
		w.r.Must(w.store.MarkVolumeReadonly(w.vid), "MarkVolumeReadonly")
		w.readonly = true
	case "RW":
		w.r.Must(w.store.MarkVolumeWritable(w.vid), "MarkVolumeWritable")
		w.readonly = false
	case "REOPEN":
		w.store.Close()
		w.open()
		if w.store.GetVolume(w.vid) == nil {
			viol(lib.Sig{"op": "reopen", "class": "volume-missing"}, "volume not loaded after reopen", nil)
			return false
		}
		w.readonly = false
		if w.store.GetVolume(w.vid).IsReadOnly() {
			viol(lib.Sig{"op": "reopen", "class": "readonly-after-reopen"}, "volume read-only after clean reopen", nil)
			w.readonly = true
		}
		for _, s := range w.model {
			s.reopened = true
		}
		r.Count("reopen", 1)
	case "R":
	}
	return ok
}

// checkKey reads one key and compares it with the model.
func (w *world) checkKey(k int, hist []op, after string) bool {
	r := w.r
	key := w.cur + uint64(k)
	s := w.get(key)
	n := &needle.Needle{Id: types.NeedleId(key), Cookie: 0xdeadbeef}
	count, err := w.store.ReadVolumeNeedle(w.vid, n, nil)
	r.Eval(1)
	bad := func(class, msg string) bool {
		sig := lib.Sig{"op": "read", "class": class, "input": inputClass(s, nil), "after": after, "map": kindName(w.kind), "reopened": fmt.Sprint(s.reopened)}
		return r.Violation(sig, map[string]interface{}{"msg": msg, "history": hist, "key": k, "map": kindName(w.kind),
			"read_err": fmt.Sprint(err), "read_count": count, "read_cookie": uint32(n.Cookie), "read_data_len": len(n.Data),
			"read_name": string(n.Name), "read_mime": string(n.Mime), "model_kind": s.kind, "model_cookie": s.cookie, "model_data_len": len(s.blob.Data)})
	}
	switch s.kind {
	case 0:
		if err == nil {
			return !bad("data-for-absent-key", "read of a never-written key returned success")
		}
	case 2:
		if err == nil {
			if !bad("data-after-delete", "read after successful delete returned success") {
				s.kind = 1 // listed finding: follow the real state so that it does not cascade
				return true
			}
			return false
		}
	case 1:
		if err != nil {
			if !bad("live-blob-unreadable", "read of a live blob failed: "+err.Error()) {
				s.kind = 0 // listed finding: follow the real state so that it does not cascade
				return true
			}
			return false
		}
		if !bytes.Equal(n.Data, s.blob.Data) {
			return !bad("data-differs", "data differs from last successful write")
		}
		if uint32(n.Cookie) != s.cookie {
			// the HTTP handler compares n.Cookie (as read from disk) with the presented one
			return !bad("cookie-not-returned", "stored cookie not returned by read, so a wrong cookie cannot be told apart")
		}
		var wantPairs []byte
		if len(s.blob.Pairs) > 0 {
			wantPairs, _ = json.Marshal(s.blob.Pairs)
		}
		if string(n.Name) != s.blob.Name || string(n.Mime) != s.blob.Mime || !bytes.Equal(n.Pairs, wantPairs) ||
			n.LastModified != s.lm || n.IsCompressed() != s.blob.Compressed {
			return !bad("metadata-differs", fmt.Sprintf("metadata differs: name %q/%q mime %q/%q pairs %q/%q lm %d/%d gz %v/%v",
				n.Name, s.blob.Name, n.Mime, s.blob.Mime, n.Pairs, wantPairs, n.LastModified, s.lm, n.IsCompressed(), s.blob.Compressed))
		}
	}
	return true
}

func (w *world) runSeq(ops []op, nkeys int) {
	w.r.Case(map[string]interface{}{"map": kindName(w.kind), "ops": ops})
	w.nseq++
	if w.nseq > 400 {
		w.freshVolume()
	}
	if w.nseq%3 == 1 {
		w.late += 16
		w.cur = w.late
		w.r.Count("sequences_on_late_keys", 1)
		if w.written > 130 {
			w.r.Count("sequences_on_late_keys_with_130plus_keys_before", 1)
		}
	} else {
		w.base += 16
		w.cur = w.base
	}
	if w.readonly {
		_ = w.store.MarkVolumeWritable(w.vid)
		w.readonly = false
	}
	for i, o := range ops {
		okk := w.apply(o, ops[:i+1])
		for k := 0; k < nkeys; k++ {
			if !w.checkKey(k, ops[:i+1], o.Kind) {
				okk = false
			}
		}
		if !okk {
			return
		}
	}
}

func payload(rng *rand.Rand, class int) []byte {
	var n int
	switch class {
	case 0:
		n = 0
	case 1:
		n = 1
	case 2:
		n = 7 + rng.Intn(3)
	case 3:
		n = 1024
	default:
		n = 65536
	}
	b := make([]byte, n)
	rng.Read(b)
	return b
}

var uniq uint64

func smallBlob(empty bool) lib.BlobSpec {
	uniq++
	b := lib.BlobSpec{Name: fmt.Sprintf("n%d", uniq), Mime: "text/x" + fmt.Sprint(uniq%7)}
	if !empty {
		b.Data = []byte(fmt.Sprintf("payload-%d", uniq))
	}
	return b
}

func main() {
	r := lib.Start("C01", "exploration")
	r.SetRule("histories of W(key,cookie,payload)/D/RO/RW/REOPEN on a real storage.Store volume, every key of the history read and compared with a blob model after each op; bounded-exhaustive over 2 keys x 2 cookies x {empty,non-empty} plus seeded random histories with random sizes/names/mimes/pairs/timestamps; both needle-map kinds. distinct = distinct (map kind, op-kind sequence with key/cookie/payload class); non-trivial = history contains at least one successful write")
	r.Assume("a write answered 'unchanged' (HTTP 304) is treated as not modifying the blob")
	r.Assume("cookie checks of GET/DELETE live in the HTTP handlers; at Store level the check is that the stored cookie is returned by the read (the value the handler compares)")
	r.Assume("read-only marking via Store.MarkVolumeReadonly is not persisted across reopen (the .vif flag is the volume server's job)")

	if r.Replay != "" {
		var d struct {
			Map     string `json:"map"`
			History []op   `json:"history"`
		}
		r.Must(r.LoadReplay(&d), "load replay")
		w := &world{r: r, kind: storage.NeedleMapInMemory}
		if d.Map == "leveldb" {
			w.kind = storage.NeedleMapLevelDb
		}
		w.freshVolume()
		w.runSeq(d.History, 4)
		r.Nontrivial("replay")
		r.Nontrivial("replay2")
		r.Finish(0)
	}

	maxLen := r.Pick(3, 4)
	for _, kind := range []storage.NeedleMapKind{storage.NeedleMapInMemory, storage.NeedleMapLevelDb} {
		w := &world{r: r, kind: kind}
		w.freshVolume()
		// alphabet
		var alpha []op
		for k := 0; k < 2; k++ {
			for _, c := range cookies {
				for _, class := range []string{"", "E", "C"} { // unique payload, empty payload, constant payload
					o := op{Kind: "W", K: k, Cookie: c}
					o.Blob.Name = class // marker, replaced below
					alpha = append(alpha, o)
				}
			}
			alpha = append(alpha, op{Kind: "D", K: k})
		}
		alpha = append(alpha, op{Kind: "RO"}, op{Kind: "RW"}, op{Kind: "REOPEN"})
		if kind == storage.NeedleMapLevelDb {
			maxLen = r.Pick(2, 3) // leveldb reopen is slow; the memory kind carries the deep enumeration
		}
		idx := make([]int, maxLen)
		for L := 1; L <= maxLen; L++ {
			for i := range idx {
				idx[i] = 0
			}
			for {
				ops := make([]op, L)
				hasWrite := false
				sigk := kindName(kind)
				for i := 0; i < L; i++ {
					o := alpha[idx[i]]
					if o.Kind == "W" {
						class := o.Blob.Name
						o.Blob = smallBlob(class == "E")
						if class == "C" {
							// identical bytes on every such write: reaches the "unchanged" shortcut
							o.Blob.Data = []byte("constant-payload")
						}
						hasWrite = true
					}
					ops[i] = o
					sigk += fmt.Sprintf("/%d", idx[i])
				}
				w.runSeq(ops, 2)
				if hasWrite {
					r.Nontrivial(sigk)
				}
				if L == maxLen && idx[0] == 0 && idx[L-1] == 4 {
					r.Sample(map[string]interface{}{"map": kindName(kind), "ops": ops})
				}
				// next
				j := L - 1
				for j >= 0 {
					idx[j]++
					if idx[j] < len(alpha) {
						break
					}
					idx[j] = 0
					j--
				}
				if j < 0 {
					break
				}
				if r.Violations() > 20 {
					break
				}
			}
		}
		r.Count("exhaustive_len_"+kindName(kind), int64(maxLen))

		// random histories
		nh, nops := r.Pick(60, 300), r.Pick(200, 500)
		if kind == storage.NeedleMapLevelDb {
			nh = r.Pick(12, 60)
		}
		rng := r.SubRng("c01-random-" + kindName(kind))
		names := []string{"", "a.txt", string(bytes.Repeat([]byte("n"), 255))}
		mimes := []string{"", "image/png", string(bytes.Repeat([]byte("m"), 255))}
		for h := 0; h < nh; h++ {
			ops := make([]op, 0, nops)
			lastData := map[int][]byte{}
			sigk := fmt.Sprintf("rand/%s/%d", kindName(kind), h)
			for i := 0; i < nops; i++ {
				x := rng.Intn(100)
				k := rng.Intn(4)
				switch {
				case x < 55:
					b := lib.BlobSpec{Data: payload(rng, rng.Intn(5)), Name: names[rng.Intn(3)], Mime: mimes[rng.Intn(3)], Compressed: rng.Intn(4) == 0}
					if rng.Intn(3) == 0 {
						b.Pairs = map[string]string{"k": fmt.Sprint(rng.Intn(1000))}
					}
					switch rng.Intn(3) {
					case 1:
						b.LastModified = 1500000000 + uint64(rng.Intn(1000))
					case 2:
						b.LastModified = uint64(time.Now().Unix())
					}
					if d, ok := lastData[k]; ok && rng.Intn(4) == 0 {
						b.Data = d // byte-identical re-upload (same or other cookie, other metadata)
					}
					lastData[k] = b.Data
					ops = append(ops, op{Kind: "W", K: k, Cookie: cookies[rng.Intn(2)], Blob: b})
				case x < 80:
					ops = append(ops, op{Kind: "D", K: k})
				case x < 85:
					ops = append(ops, op{Kind: "RO"})
				case x < 93:
					ops = append(ops, op{Kind: "RW"})
				case x < 96:
					ops = append(ops, op{Kind: "REOPEN"})
				default:
					ops = append(ops, op{Kind: "R", K: k})
				}
			}
			before := r.Counter("write_ok")
			w.runSeq(ops, 4)
			if r.Counter("write_ok") > before {
				r.Nontrivial(sigk)
			}
			if h == 0 {
				short := ops
				if len(short) > 12 {
					short = short[:12]
				}
				for i := range short {
					if len(short[i].Blob.Data) > 16 {
						short[i].Blob.Data = short[i].Blob.Data[:16]
					}
					if len(short[i].Blob.Name) > 16 {
						short[i].Blob.Name = short[i].Blob.Name[:16]
					}
					if len(short[i].Blob.Mime) > 16 {
						short[i].Blob.Mime = short[i].Blob.Mime[:16]
					}
				}
				r.Sample(map[string]interface{}{"map": kindName(kind), "random_history_prefix(truncated fields)": short})
			}
			if r.Violations() > 20 {
				break
			}
		}
		w.store.Close()
	}
	// HTTP-level cookie clause (GET/HEAD/DELETE with a wrong cookie) on a real volume server
	if bin := os.Getenv("VERIF_BIN_C01HTTP"); bin != "" {
		r.RunChild("http", bin, nil)
		if r.Counter("http.wrong_cookie_reads_refused_on_live_blob") == 0 || r.Counter("http.wrong_cookie_deletes_harmless_on_live_blob") == 0 {
			r.Inconclusive("HTTP child observed no wrong-cookie read/delete on a live blob")
		}
	} else {
		r.Inconclusive("VERIF_BIN_C01HTTP not set: HTTP-level cookie clause not run")
	}
	if r.Counter("write_ok") == 0 || r.Counter("delete_ok") == 0 || r.Counter("reopen") == 0 {
		r.Inconclusive("no successful write/delete/reopen observed")
	}
	_ = os.Stdout.Sync()
	r.Finish(100)
}
