// C22 — Metadata change subscribers see every change once, in order.
//
// S1 driver: a real log_buffer.LogBuffer with a capturing flushFn (the captured
// segments are the "disk"), appender goroutines with explicit timestamps (gaps
// larger than the flush interval force rotation, 1 MiB payloads force the 4 MiB
// roll, a 5 MiB payload takes the larger-than-buffer path, a short real flush
// interval adds timer-driven seals), and subscriber goroutines that run the real
// LoopProcessLogData from assorted start points and fall back to the captured
// segments on ResumeFromDiskError with the same loop as
// filer_grpc_server_sub_meta.go (disk part read with the real filer.ReadEachLogEntry).
//
// Oracle per subscriber: delivered timestamps strictly increasing, no event twice,
// and — after the appenders stopped, the buffer was shut down, the last flush is
// visible and the subscriber made further idle iterations — exactly the events with
// a timestamp later than its start. The authoritative timestamp of an event is the
// one the buffer assigned (read back from the flushed segments).
//
// How far the flush lags behind the sealing of buffers is controlled by a gate in
// the harness flushFn and measured from logical stamps; it is part of the signature
// of every violation (lag<=2, 3, >=4 sealed-but-unflushed buffers).
//
// Race reports whose two accessing functions are inside weed/util/log_buffer are
// decisive (parent process parses the race logs of all children).
package main

import (
	"bytes"
	"encoding/binary"
	"fmt"
	"io"
	"math/rand"
	"os"
	"runtime"
	"strconv"
	"sync"
	"sync/atomic"
	"time"

	"github.com/golang/protobuf/proto"

	"github.com/chrislusf/seaweedfs/weed/filer"
	"github.com/chrislusf/seaweedfs/weed/pb/filer_pb"
	"github.com/chrislusf/seaweedfs/weed/util"
	"github.com/chrislusf/seaweedfs/weed/util/log_buffer"

	"verifharness/lib"
)

// ---------------------------------------------------------------- schedule

type appendSpec struct {
	Ts   int64 `json:"ts"`   // explicit event timestamp (ns)
	Size int   `json:"size"` // payload bytes (>= 16)
}

type phase struct {
	Appenders [][]appendSpec `json:"appenders"` // run concurrently; more than one => timestamps get bumped
	SleepUs   int            `json:"sleep_us,omitempty"`
}

type readerSpec struct {
	Class       string `json:"class"`                  // start class (coverage)
	Start       int64  `json:"start"`                  // start timestamp (ns)
	AfterPhase  int    `json:"after_phase"`            // -1: runs from the beginning; k: starts when phase k is complete
	PauseAfter  int    `json:"pause_after,omitempty"`  // pause inside the callback after that many events ...
	ResumePhase int    `json:"resume_phase,omitempty"` // ... until this phase is complete
	Slow        bool   `json:"slow,omitempty"`         // yields inside the callback
}

type schedule struct {
	Kind          string       `json:"kind"`
	Hold          int          `json:"hold"`  // flush gate: keep the flush at least this many seals behind
	Paced         bool         `json:"paced"` // appender waits so that at most Hold+1 sealed buffers are unflushed
	FlushInterval int64        `json:"flush_interval_ns"`
	Timer         bool         `json:"timer"` // flush interval is short in real time: loopInterval seals as well
	Phases        []phase      `json:"phases"`
	Readers       []readerSpec `json:"readers"`
}

const baseTs = int64(1609459200) * 1e9 // 2021-01-01

var sizeClasses = []int{16, 16, 40, 200, 200, 4000, 65536}

func genSchedule(rng *rand.Rand, idx int, big, oversize bool) schedule {
	s := schedule{FlushInterval: int64(10 * time.Second)}
	multi := false
	switch idx % 7 {
	case 6:
		s.Kind, s.Hold, s.Paced = "paced-lag2", 1, true
	case 0:
		s.Kind, s.Hold, s.Paced = "paced-sync", 0, true
	case 1:
		s.Kind, s.Hold, s.Paced = "paced-lag2", 1, true
	case 2:
		s.Kind = "free-multi"
		multi = true
	case 3:
		s.Kind, s.Hold, s.Paced = "gated-lag3", 2, true
	case 4:
		s.Kind, s.Hold, s.Paced = "gated-lag5", 4, true
	case 5:
		s.Kind, s.Timer = "timer-multi", true
		s.FlushInterval = int64(15 * time.Millisecond)
		multi = true
	}
	nPhases := 5 + rng.Intn(7)
	ts := baseTs + int64(rng.Intn(1000))*1e6
	var exact []int64 // timestamps known to be assigned exactly as planned
	var phaseFirst, phaseLast []int64
	bigDone := false
	for p := 0; p < nPhases; p++ {
		ph := phase{}
		if s.Timer {
			ts += int64(1+rng.Intn(3)) * 1e6
			ph.SleepUs = 2000 + rng.Intn(6000)
		} else {
			ts += s.FlushInterval + int64(1+rng.Intn(5))*1e9 // gap: the first append of the phase rotates
		}
		phaseFirst = append(phaseFirst, ts)
		nApp := 1
		if multi && rng.Intn(3) > 0 {
			nApp = 2 + rng.Intn(2)
		}
		style := rng.Intn(10)
		n := 1 + rng.Intn(20)
		if big && p == 2 {
			n = 8
		}
		if style < 3 {
			n = 1 + rng.Intn(3) // rotation after almost every append
		}
		sizeRoll := big && !multi && p == 2 && !bigDone
		for a := 0; a < nApp; a++ {
			var l []appendSpec
			t := ts + int64(a) // appenders start at (almost) the same timestamp: bumps
			for i := 0; i < n; i++ {
				sz := sizeClasses[rng.Intn(len(sizeClasses))]
				if sizeRoll {
					sz = 1 << 20
					if i == 2 && oversize {
						sz = 5<<20 + 100 // larger than the whole buffer
					}
				}
				l = append(l, appendSpec{Ts: t, Size: sz})
				if nApp == 1 {
					exact = append(exact, t)
				}
				t += int64(1 + rng.Intn(2000))
				if rng.Intn(8) == 0 {
					t -= int64(rng.Intn(3)) // equal / decreasing timestamps: monotonic bump
				}
				if sizeRoll && i >= 5 {
					break
				}
			}
			ph.Appenders = append(ph.Appenders, l)
			if last := l[len(l)-1].Ts; last > ts {
				ts = last
			}
		}
		if sizeRoll {
			bigDone = true
		}
		ts += 5000
		phaseLast = append(phaseLast, ts)
		s.Phases = append(s.Phases, ph)
	}
	if len(exact) == 0 {
		exact = append(exact, phaseLast...)
	}
	// readers
	nReaders := 2 + rng.Intn(5)
	if big {
		nReaders = 2
	}
	for i := 0; i < nReaders; i++ {
		rs := readerSpec{AfterPhase: -1}
		switch c := (i + rng.Intn(3)) % 7; c {
		case 0:
			rs.Class, rs.Start = "before-everything", 0
		case 1:
			rs.Class, rs.Start = "exact-event-ts", exact[rng.Intn(len(exact))]
		case 2:
			rs.Class, rs.Start = "between-events", exact[rng.Intn(len(exact))]+1
		case 3:
			rs.Class, rs.Start = "after-last", ts+int64(time.Hour)
		case 4:
			p := rng.Intn(nPhases)
			rs.Class, rs.Start = "first-ts-of-a-buffer", phaseFirst[p]
		case 5:
			p := rng.Intn(nPhases)
			rs.Class, rs.Start = "just-before-a-buffer", phaseFirst[p]-1
		case 6:
			p := rng.Intn(nPhases)
			rs.Class, rs.Start = "in-gap-after-a-buffer", phaseLast[p]
		}
		switch rng.Intn(4) {
		case 0: // late joiner: everything it asks for may already be flushed
			rs.AfterPhase = rng.Intn(nPhases)
			rs.Class += "/late"
		case 1: // falls behind by a known number of phases
			rs.PauseAfter = 1 + rng.Intn(5)
			rs.ResumePhase = rng.Intn(nPhases)
			rs.Class += "/paused"
		case 2:
			rs.Slow = true
			rs.Class += "/slow"
		}
		s.Readers = append(s.Readers, rs)
	}
	return s
}

// ---------------------------------------------------------------- run one schedule

var clock int64

func tick() int64 { return atomic.AddInt64(&clock, 1) }

type segment struct {
	start, stop int64
	data        []byte
	entry       int64 // stamp when flushFn was entered
}

type evRec struct {
	id         uint64
	size       int
	planned    int64
	startStamp int64
	endStamp   int64
	phase      int
	// from disk
	ts    int64
	seg   int
	found int
}

type delivered struct {
	ts int64
	id uint64
	ok bool // payload intact
}

type readerRun struct {
	spec        readerSpec
	got         []delivered
	diskEvents  int64
	memEvents   int64
	fallbacks   int64
	resumeErrs  int64
	stuck       bool
	unmarshalOK bool
}

type world struct {
	r       *lib.Run
	sched   schedule
	lb      *log_buffer.LogBuffer
	diskMu  sync.Mutex
	disk    []segment
	flushed int64 // flushFn returned
	entered int64 // flushFn entered
	// gate
	sealedPredicted int64
	finishing       int32
	// completion stamps found by probing
	probeMu    sync.Mutex
	probeStamp map[int]int64
	done       int32
	notify     int64
	phaseDone  []chan struct{}
	events     []*evRec
	evMu       sync.Mutex
	paceFailed int
	elapsed    time.Duration
	// wake-ups: a generation counter bumped by appends (notifyFn), flushes, predicted
	// seals, phase ends and a 1 ms ticker; waiters sleep on the condition variable
	wmu  sync.Mutex
	cond *sync.Cond
	gen  int64
}

func (w *world) bump() {
	w.wmu.Lock()
	w.gen++
	w.wmu.Unlock()
	w.cond.Broadcast()
}

// waitNext sleeps until the next wake-up.
func (w *world) waitNext() {
	w.wmu.Lock()
	g := w.gen
	for w.gen == g {
		w.cond.Wait()
	}
	w.wmu.Unlock()
}

// waitGen sleeps until the generation differs from seen (or stop() holds) and returns the new one.
func (w *world) waitGen(seen int64, stop func() bool) int64 {
	w.wmu.Lock()
	for w.gen == seen && !stop() {
		w.cond.Wait()
	}
	g := w.gen
	w.wmu.Unlock()
	return g
}

func payload(id uint64, size int) []byte {
	if size < 16 {
		size = 16
	}
	b := make([]byte, size)
	binary.BigEndian.PutUint64(b, id)
	binary.BigEndian.PutUint64(b[8:], uint64(size))
	for i := 16; i < size; i++ {
		b[i] = byte(id) + byte(i)
	}
	return b
}

func checkPayload(b []byte) (uint64, bool) {
	if len(b) < 16 {
		return 0, false
	}
	id := binary.BigEndian.Uint64(b)
	if int(binary.BigEndian.Uint64(b[8:])) != len(b) {
		return id, false
	}
	step := 1
	if len(b) > 4096 {
		step = 97
	}
	for i := 16; i < len(b); i += step {
		if b[i] != byte(id)+byte(i) {
			return id, false
		}
	}
	return id, true
}

var partitionKey = []byte("/some/dir")

func entrySize(ts int64, size int) int {
	e := &filer_pb.LogEntry{TsNs: ts, PartitionKeyHash: util.HashToInt32(partitionKey), Data: make([]byte, size)}
	return proto.Size(e)
}

func (w *world) flushFn(start, stop time.Time, buf []byte) {
	entry := tick()
	atomic.AddInt64(&w.entered, 1)
	w.diskMu.Lock()
	j := len(w.disk)
	w.diskMu.Unlock()
	// gate: flush j may proceed once sealedPredicted >= j+1+Hold (or at the end)
	open := func() bool {
		return w.sched.Hold == 0 || atomic.LoadInt32(&w.finishing) != 0 || atomic.LoadInt64(&w.sealedPredicted) >= int64(j+1+w.sched.Hold)
	}
	for g := int64(-1); !open(); {
		g = w.waitGen(g, open)
	}
	cp := append([]byte(nil), buf...)
	w.diskMu.Lock()
	w.disk = append(w.disk, segment{start: start.UnixNano(), stop: stop.UnixNano(), data: cp, entry: entry})
	w.diskMu.Unlock()
	atomic.AddInt64(&w.flushed, 1)
	w.bump()
}

// flushComplete reports whether flush j is complete from a subscriber's point of
// view (lastFlushTime advanced), found through the public read API.
func (w *world) flushComplete(j int) bool {
	if atomic.LoadInt64(&w.flushed) <= int64(j) {
		return false
	}
	w.diskMu.Lock()
	stop := w.disk[j].stop
	w.diskMu.Unlock()
	b, err := w.lb.ReadFromBuffer(time.Unix(0, stop-1))
	if b != nil {
		w.lb.ReleaseMemory(b)
	}
	if err == log_buffer.ResumeFromDiskError {
		w.probeMu.Lock()
		if _, ok := w.probeStamp[j]; !ok {
			w.probeStamp[j] = tick()
		}
		w.probeMu.Unlock()
		return true
	}
	return false
}

// pace waits (bounded) until at most Hold+1 sealed buffers will be unflushed after
// sealing one more.
func (w *world) pace() {
	if !w.sched.Paced {
		return
	}
	need := int(atomic.LoadInt64(&w.sealedPredicted)) - w.sched.Hold // flushes 0..need-1 complete
	if need <= 0 {
		return
	}
	g := int64(-1)
	for i := 0; i < 20000; i++ { // bounded: every iteration follows a wake-up (at least the 1 ms ticker)
		if w.flushComplete(need - 1) {
			return
		}
		g = w.waitGen(g, func() bool { return false })
	}
	w.paceFailed++
}

// settle (in-step regime only): after an append wait until the flusher is idle and the
// last flush is visible, giving the flusher one more wake-up to pick up a seal the
// prediction did not foresee. Only shapes the workload; the lag class is measured.
func (w *world) settle() {
	if !(w.sched.Paced && w.sched.Hold == 0) {
		return
	}
	for round := 0; round < 2; round++ {
		for i := 0; i < 5000; i++ {
			e, f := atomic.LoadInt64(&w.entered), atomic.LoadInt64(&w.flushed)
			if e == f && (f == 0 || w.flushComplete(int(f)-1)) {
				break
			}
			w.waitNext()
		}
		if round == 0 {
			w.waitNext()
		}
	}
}

func (w *world) diskSnapshot() []segment {
	w.diskMu.Lock()
	defer w.diskMu.Unlock()
	return w.disk[:len(w.disk):len(w.disk)]
}

// readDisk mirrors Filer.ReadPersistedLogBuffer over the captured segments.
func (w *world) readDisk(start time.Time, each func(*filer_pb.LogEntry) error) (lastTsNs int64, err error) {
	sizeBuf := make([]byte, 4)
	startTsNs := start.UnixNano()
	for _, seg := range w.diskSnapshot() {
		// The real reader skips whole minute files by name only (files named after the flush
		// start time): segments of the start's own minute and later are read even when all
		// their entries are older than the start; ReadEachLogEntry filters those out.
		if time.Unix(0, seg.start).UTC().Truncate(time.Minute).Before(start.UTC().Truncate(time.Minute)) {
			continue
		}
		var l int64
		l, err = filer.ReadEachLogEntry(bytes.NewReader(seg.data), sizeBuf, startTsNs, each)
		if l != 0 {
			lastTsNs = l
		}
		if err != nil && err != io.EOF {
			return lastTsNs, err
		}
	}
	return lastTsNs, nil
}

const idleIterations = 3

func (w *world) runReader(rr *readerRun, wg *sync.WaitGroup) {
	defer wg.Done()
	spec := rr.spec
	if spec.AfterPhase >= 0 {
		<-w.phaseDone[spec.AfterPhase]
	}
	inDisk := false
	each := func(le *filer_pb.LogEntry) error {
		id, ok := checkPayload(le.Data)
		rr.got = append(rr.got, delivered{ts: le.TsNs, id: id, ok: ok})
		if inDisk {
			rr.diskEvents++
		} else {
			rr.memEvents++
		}
		if spec.PauseAfter > 0 && len(rr.got) == spec.PauseAfter {
			<-w.phaseDone[spec.ResumePhase]
		}
		if spec.Slow && len(rr.got)%2 == 0 && atomic.LoadInt32(&w.finishing) == 0 {
			w.waitNext() // falls behind: at most 2 events per wake-up
		}
		return nil
	}
	idle := 0
	lastGen := int64(-1)
	isDone := func() bool { return atomic.LoadInt32(&w.done) != 0 }
	waitFn := func() bool {
		if isDone() {
			idle++
			return idle <= idleIterations
		}
		lastGen = w.waitGen(lastGen, isDone)
		return true
	}
	lastRead := time.Unix(0, spec.Start)
	var memErr error
	spins := 0
	for loops := 0; ; loops++ {
		inDisk = true
		processed, derr := w.readDisk(lastRead, each)
		inDisk = false
		if derr != nil {
			rr.stuck = true
			return
		}
		if processed != 0 {
			lastRead = time.Unix(0, processed)
			spins = 0
		} else if memErr == log_buffer.ResumeFromDiskError {
			// memory says "flushed", the flushed data has nothing newer yet: the server
			// sleeps and reads the disk again; here bounded
			spins++
			if spins > 20000 {
				rr.stuck = true
				return
			}
			lastGen = w.waitGen(lastGen, func() bool { return false })
			continue
		}
		lastRead, memErr = w.lb.LoopProcessLogData(fmt.Sprintf("reader-%s", spec.Class), lastRead, waitFn, each)
		if memErr == log_buffer.ResumeFromDiskError {
			rr.fallbacks++
			continue
		}
		if memErr == log_buffer.ResumeError {
			rr.resumeErrs++
			if rr.resumeErrs > 20000 {
				rr.stuck = true
				return
			}
			lastGen = w.waitGen(lastGen, func() bool { return false }) // the server sleeps 1.1 s here
			continue
		}
		return // waitFn said stop (or an error from the callback, which never fails here)
	}
}

type outcome struct {
	Lag        int
	LagClass   string
	Segments   int
	Events     int
	Fallbacks  int64
	DiskEvents int64
	MemEvents  int64
}

func (w *world) appendOne(ev *evRec, ts int64) {
	ev.startStamp = tick()
	w.lb.AddToBuffer(partitionKey, payload(ev.id, ev.size), ts)
	ev.endStamp = tick()
}

var nextID uint64

func runSchedule(r *lib.Run, s schedule, label string) {
	w := &world{r: r, sched: s, probeStamp: map[int]int64{}}
	w.cond = sync.NewCond(&w.wmu)
	stopTicker := make(chan struct{})
	defer close(stopTicker)
	go func() {
		t := time.NewTicker(time.Millisecond)
		defer t.Stop()
		for {
			select {
			case <-t.C:
				w.bump()
			case <-stopTicker:
				return
			}
		}
	}()
	for range s.Phases {
		w.phaseDone = append(w.phaseDone, make(chan struct{}))
	}
	created := time.Now()
	w.lb = log_buffer.NewLogBuffer("c22", time.Duration(s.FlushInterval), w.flushFn, func() { w.bump() })

	var wg sync.WaitGroup
	runs := make([]*readerRun, len(s.Readers))
	for i, rs := range s.Readers {
		runs[i] = &readerRun{spec: rs}
		wg.Add(1)
		go w.runReader(runs[i], &wg)
	}

	// appenders, phase by phase, with a prediction of the seals used only for pacing
	pos, bufStart := 0, int64(0)
	const bufLen = log_buffer.BufferSize
	predSeg := map[uint64]int{} // predicted segment index of every event
	curSeg := 0
	for pi, ph := range s.Phases {
		if ph.SleepUs > 0 {
			time.Sleep(time.Duration(ph.SleepUs) * time.Microsecond)
		}
		if len(ph.Appenders) == 1 {
			for _, a := range ph.Appenders[0] {
				nextID++
				ev := &evRec{id: nextID, size: a.Size, planned: a.Ts, phase: pi}
				w.events = append(w.events, ev)
				esz := entrySize(a.Ts, a.Size) + 4
				seal := pos > 0 && (bufStart+s.FlushInterval < a.Ts || bufLen-pos < esz)
				if seal {
					w.pace()
					atomic.AddInt64(&w.sealedPredicted, 1)
					w.bump()
					pos = 0
					curSeg++
				}
				predSeg[ev.id] = curSeg
				if pos == 0 {
					bufStart = a.Ts
				}
				pos += esz
				w.appendOne(ev, a.Ts)
				w.settle()
			}
		} else {
			// several appenders: the first append of the phase seals (gap); inside the phase
			// timestamps collide and get bumped. No pacing inside.
			if pos > 0 && !s.Timer {
				w.pace()
				atomic.AddInt64(&w.sealedPredicted, 1)
				w.bump()
				pos = 0
				curSeg++
			}
			var awg sync.WaitGroup
			lists := make([][]*evRec, len(ph.Appenders))
			for ai, l := range ph.Appenders {
				for _, a := range l {
					nextID++
					ev := &evRec{id: nextID, size: a.Size, planned: a.Ts, phase: pi}
					predSeg[ev.id] = curSeg
					lists[ai] = append(lists[ai], ev)
					w.events = append(w.events, ev)
					pos += entrySize(a.Ts, a.Size) + 4
				}
			}
			bufStart = ph.Appenders[0][0].Ts
			for ai := range lists {
				awg.Add(1)
				go func(l []*evRec) {
					defer awg.Done()
					for _, ev := range l {
						w.appendOne(ev, ev.planned)
					}
				}(lists[ai])
			}
			awg.Wait()
		}
		close(w.phaseDone[pi])
	}
	// quiescence: open the gate, shut the buffer down, wait until everything is on
	// "disk" and the last flush is visible to subscribers
	shutdownStamp := tick()
	atomic.StoreInt32(&w.finishing, 1)
	w.bump()
	w.lb.Shutdown()
	total := len(w.events)
	deadline := time.Now().Add(120 * time.Second)
	for {
		n := 0
		for _, seg := range w.diskSnapshot() {
			n += countEntries(seg.data)
		}
		if n >= total {
			break
		}
		if time.Now().After(deadline) {
			r.Inconclusive("flush did not drain after Shutdown (watchdog)")
			return
		}
		w.waitNext()
	}
	nseg := len(w.diskSnapshot())
	for i := 0; nseg > 0 && !w.flushComplete(nseg-1); i++ {
		if time.Now().After(deadline) {
			r.Inconclusive("last flush never became visible (watchdog)")
			return
		}
		runtime.Gosched()
	}
	atomic.StoreInt32(&w.done, 1)
	w.bump()
	fin := make(chan struct{})
	go func() { wg.Wait(); close(fin) }()
	select {
	case <-fin:
	case <-time.After(180 * time.Second):
		r.Inconclusive("subscribers did not finish after quiescence (watchdog)")
		buf := make([]byte, 1<<20)
		os.Stderr.Write(buf[:runtime.Stack(buf, true)])
		return
	}
	w.elapsed = time.Since(created)
	w.evaluate(runs, shutdownStamp, predSeg, label)
}

func countEntries(b []byte) int {
	n := 0
	for pos := 0; pos+4 <= len(b); {
		sz := int(util.BytesToUint32(b[pos : pos+4]))
		pos += 4 + sz
		n++
	}
	return n
}

// ---------------------------------------------------------------- oracle

func (w *world) evaluate(runs []*readerRun, shutdownStamp int64, predSeg map[uint64]int, label string) {
	r := w.r
	s := w.sched
	byID := map[uint64]*evRec{}
	for _, e := range w.events {
		byID[e.id] = e
	}
	viol := func(sig lib.Sig, extra map[string]interface{}) {
		extra["schedule"] = s
		extra["label"] = label
		r.Violation(sig, extra)
	}
	// ground truth from the flushed segments
	disk := w.diskSnapshot()
	var order []*evRec
	prevTs := int64(0)
	truthBad := false
	for si, seg := range disk {
		for pos := 0; pos+4 <= len(seg.data); {
			sz := int(util.BytesToUint32(seg.data[pos : pos+4]))
			le := &filer_pb.LogEntry{}
			if pos+4+sz > len(seg.data) || proto.Unmarshal(seg.data[pos+4:pos+4+sz], le) != nil {
				viol(lib.Sig{"what": "flushed-data", "class": "unparsable-segment"}, map[string]interface{}{"segment": si})
				truthBad = true
				break
			}
			pos += 4 + sz
			id, ok := checkPayload(le.Data)
			e := byID[id]
			r.Eval(1)
			if e == nil || !ok {
				viol(lib.Sig{"what": "flushed-data", "class": "foreign-or-corrupt-entry"}, map[string]interface{}{"segment": si, "id": id})
				truthBad = true
				continue
			}
			e.found++
			e.ts, e.seg = le.TsNs, si
			if le.TsNs <= prevTs {
				viol(lib.Sig{"what": "assigned-timestamps", "class": "not-strictly-increasing"}, map[string]interface{}{"segment": si, "ts": le.TsNs, "prev": prevTs})
				truthBad = true
			}
			prevTs = le.TsNs
			order = append(order, e)
		}
	}
	for _, e := range w.events {
		if e.found != 1 {
			cls := "event-never-flushed"
			if e.found > 1 {
				cls = "event-flushed-twice"
			}
			viol(lib.Sig{"what": "flushed-data", "class": cls}, map[string]interface{}{"id": e.id, "planned_ts": e.planned})
			truthBad = true
		}
	}
	bumped := 0
	for _, e := range w.events {
		if e.found == 1 && e.ts != e.planned {
			bumped++
		}
	}
	r.Count("events", int64(len(w.events)))
	r.Count("events_with_bumped_timestamp", int64(bumped))
	r.Count("rotations_flushes", int64(len(disk)))
	if truthBad {
		return
	}

	// measured flush lag (upper bound): sealed-but-unflushed buffers at each seal
	samePrediction := true
	for _, e := range order {
		if predSeg[e.id] != e.seg {
			samePrediction = false
		}
	}
	// without timer-driven seals a buffer is sealed inside the AddToBuffer of the first event
	// of the next one; timer seals are possible once the run lasted a good part of the flush interval
	conservative := s.Timer || w.elapsed > time.Duration(s.FlushInterval)/2
	lastOfSeg := make([]*evRec, len(disk))
	firstOfSeg := make([]*evRec, len(disk))
	for _, e := range order {
		if firstOfSeg[e.seg] == nil {
			firstOfSeg[e.seg] = e
		}
		lastOfSeg[e.seg] = e
	}
	complete := make([]int64, len(disk))
	for j := range disk {
		c := int64(1) << 62
		if j+1 < len(disk) {
			c = disk[j+1].entry
		}
		if p, ok := w.probeStamp[j]; ok && p < c {
			c = p
		}
		complete[j] = c
	}
	maxLag := 0
	for k := range disk {
		// earliest moment segment k can have been sealed
		var sealAt int64
		switch {
		case conservative:
			// the start of any event of the segment's last phase may precede the seal
			sealAt = lastOfSeg[k].startStamp
			for _, e := range order {
				if e.seg == k && e.startStamp < sealAt && e.phase == lastOfSeg[k].phase {
					sealAt = e.startStamp
				}
			}
		case k+1 < len(disk):
			// sealed inside the AddToBuffer of whichever event of the next segment came first
			sealAt = firstOfSeg[k+1].startStamp
			for _, e := range order {
				if e.seg == k+1 && e.startStamp < sealAt {
					sealAt = e.startStamp
				}
			}
		default:
			sealAt = shutdownStamp
		}
		flushed := 0
		for j := 0; j < len(disk); j++ {
			if complete[j] < sealAt {
				flushed++
			}
		}
		if lag := k + 1 - flushed; lag > maxLag {
			maxLag = lag
		}
	}
	lagClass := "le2"
	switch {
	case maxLag >= 4:
		lagClass = "ge4"
	case maxLag == 3:
		lagClass = "3"
	}
	r.Count("schedules_lag_"+lagClass, 1)
	r.Count("schedules_kind_"+s.Kind, 1)
	if w.paceFailed > 0 {
		r.Count("pacing_waits_given_up", int64(w.paceFailed))
	}
	if !samePrediction {
		r.Count("schedules_with_unpredicted_seals", 1)
	}

	// per subscriber
	var fall, dsk, mem int64
	for ri, rr := range runs {
		fall += rr.fallbacks
		dsk += rr.diskEvents
		mem += rr.memEvents
		r.Eval(1)
		sig := func(class string) lib.Sig {
			return lib.Sig{"what": "subscriber", "class": class, "lag": lagClass}
		}
		det := func(extra map[string]interface{}) map[string]interface{} {
			extra["reader"] = rr.spec
			extra["reader_index"] = ri
			extra["measured_max_lag"] = maxLag
			extra["delivered_count"] = len(rr.got)
			extra["fallbacks"] = rr.fallbacks
			extra["resume_errors"] = rr.resumeErrs
			return extra
		}
		if rr.stuck {
			viol(sig("subscriber-stuck"), det(map[string]interface{}{}))
			continue
		}
		seen := map[uint64]int{}
		reported := map[string]bool{}
		rep := func(class string, extra map[string]interface{}) {
			if !reported[class] {
				reported[class] = true
				viol(sig(class), det(extra))
			}
		}
		for i, d := range rr.got {
			e := byID[d.id]
			if e == nil || !d.ok || e.ts != d.ts {
				rep("corrupt-or-foreign-event", map[string]interface{}{"index": i, "ts": d.ts, "id": d.id})
				continue
			}
			if i > 0 && d.ts <= rr.got[i-1].ts {
				rep("not-strictly-increasing", map[string]interface{}{"index": i, "ts": d.ts, "prev_ts": rr.got[i-1].ts, "id": d.id, "prev_id": rr.got[i-1].id})
			}
			seen[d.id]++
			if seen[d.id] == 2 {
				rep("duplicate", map[string]interface{}{"index": i, "ts": d.ts, "id": d.id, "segment": e.seg})
			}
			if d.ts <= rr.spec.Start {
				rep("event-not-later-than-start", map[string]interface{}{"index": i, "ts": d.ts, "start": rr.spec.Start})
			}
		}
		want := 0
		for _, e := range order {
			if e.ts > rr.spec.Start {
				want++
				if seen[e.id] == 0 {
					rep("missing", map[string]interface{}{"missing_id": e.id, "missing_ts": e.ts, "segment": e.seg, "segments": len(disk)})
				}
			}
		}
		if rr.resumeErrs > 0 {
			rep("resume-error-truncated-entry", map[string]interface{}{})
		}
		if want > 0 {
			r.Count("subscribers_expecting_events", 1)
		}
		r.Count("reader_start_class:"+rr.spec.Class, 1)
	}
	r.Count("subscribers", int64(len(runs)))
	r.Count("disk_fallbacks", fall)
	r.Count("events_delivered_from_disk", dsk)
	r.Count("events_delivered_from_memory", mem)
	if fall > 0 && mem > 0 && dsk > 0 && len(disk) >= 3 {
		r.Nontrivial(label)
	}
}

// ---------------------------------------------------------------- races

func raceVerdict(r *lib.Run, component string) {
	reps := lib.ParseRaceLogs(lib.RaceLogPath())
	r.Count("race_reports_total", int64(len(reps)))
	seen := map[string]int{}
	other := map[string]int{}
	for _, rep := range reps {
		acc := rep.Accesses()
		if len(acc) < 2 || !rep.AccessesIn(component) {
			k := rep.Signature()
			if len(acc) == 2 {
				k = lib.ShortFn(acc[0].Fn) + " | " + lib.ShortFn(acc[1].Fn)
			}
			other[k]++
			continue
		}
		a, b := acc[0], acc[1]
		if !a.Write || (b.Write && lib.ShortFn(b.Fn) < lib.ShortFn(a.Fn)) {
			a, b = b, a
		}
		sig := lib.ShortFn(a.Fn) + "|" + lib.ShortFn(b.Fn)
		seen[sig]++
		if seen[sig] == 1 {
			r.Eval(1)
			text := rep.Text
			if len(text) > 3000 {
				text = text[:3000]
			}
			r.Violation(lib.Sig{"what": "race", "class": "data-race", "writer": lib.ShortFn(a.Fn), "other": lib.ShortFn(b.Fn)}, map[string]interface{}{"report": text})
		}
	}
	r.Note("race_signatures_in_component", seen)
	if len(other) > 0 {
		r.Note("race_signatures_elsewhere_recorded_not_decisive", other)
	}
}

// ---------------------------------------------------------------- main

func main() {
	r := lib.Start("C22", "exploration")
	r.SetRule("schedules = (flush regime, phases of 1-3 concurrent appenders with explicit timestamps incl. equal/decreasing ones, 2-6 subscribers with start class and pacing); regimes: flush in step with sealing, flush held 1 / 2 / 4 seals behind by a gate in the harness flushFn, free-running appenders, timer-driven seals with a 15 ms flush interval; 1 MiB payloads roll the 4 MiB buffer, one 5 MiB payload takes the larger-than-buffer path. Each schedule is repeated (race reports and interleavings vary). distinct = (schedule index, repeat); non-trivial = at least 3 buffer rotations, at least one subscriber fell back to flushed data and events were delivered both from memory and from flushed data")
	r.Assume("the authoritative timestamp of an event is the one the buffer assigned, read back from the flushed segments; every appended payload is unique")
	r.Assume("flushed data is read the way Filer.ReadPersistedLogBuffer does (filer.ReadEachLogEntry over the segments in flush order); the filer's own log files are not involved in this tier")
	r.Assume("quiescence = appenders finished, Shutdown called, last flush visible through ReadFromBuffer, then 3 further idle iterations of each subscriber")
	r.Assume("race reports are decisive only when both accessing functions are inside weed/util/log_buffer")
	r.Assume("the measured flush lag (part of every signature) takes a buffer as sealed inside the AddToBuffer of the first event of the next buffer; when the run lasted longer than half the flush interval (timer seals possible) or in the timer regime the earlier, conservative bound is used, which can only push a schedule into a higher lag class")
	batchNo := -1
	if len(r.Args) == 2 && r.Args[0] == "batch" { // child invocation: positional, lib.Start owns the flags
		batchNo, _ = strconv.Atoi(r.Args[1])
	}
	batch := &batchNo

	nSched := r.Pick(30, 120)
	repeats := r.Pick(3, 4)

	if r.Replay != "" {
		var d struct {
			Schedule schedule `json:"schedule"`
		}
		r.Must(r.LoadReplay(&d), "load replay")
		for i := 0; i < 5; i++ {
			runSchedule(r, d.Schedule, fmt.Sprintf("replay/%d", i))
		}
		r.Finish(0)
	}

	if *batch >= 0 {
		rng := r.SubRng("c22-schedules")
		for i := 0; i < nSched; i++ {
			// 1 MiB payloads are very expensive under the race detector: one rolling schedule per
			// repeat (two in the thorough tier), the larger-than-buffer entry only in repeat 0
			big := i == 7 || (r.Thorough() && i == 13)
			s := genSchedule(rng, i, big, big && *batch == 0 && i == 7)
			if only := os.Getenv("VERIF_C22_ONLY"); only != "" && fmt.Sprint(i) != only {
				continue
			}
			t0 := time.Now()
			r.Case(map[string]interface{}{"repeat": *batch, "index": i, "schedule": s})
			runSchedule(r, s, fmt.Sprintf("sched/%d/rep/%d", i, *batch))
			fmt.Fprintf(os.Stderr, "schedule %d %s took %.2fs\n", i, s.Kind, time.Since(t0).Seconds())
			if i < 1 && *batch == 0 {
				short := s
				if len(short.Phases) > 2 {
					short.Phases = short.Phases[:2]
				}
				for pi := range short.Phases {
					for ai := range short.Phases[pi].Appenders {
						if len(short.Phases[pi].Appenders[ai]) > 3 {
							short.Phases[pi].Appenders[ai] = short.Phases[pi].Appenders[ai][:3]
						}
					}
				}
				r.Sample(map[string]interface{}{"schedule_truncated_to_2_phases_3_appends": short})
			}
			if r.Violations() > 30 {
				break
			}
		}
		r.Finish(0)
	}

	self := os.Getenv("VERIF_SELF")
	if self == "" {
		self = os.Args[0]
	}
	var cwg sync.WaitGroup
	par := make(chan struct{}, 3) // at most 3 children at a time
	for rep := 0; rep < repeats; rep++ {
		cwg.Add(1)
		go func(rep int) {
			defer cwg.Done()
			par <- struct{}{}
			r.RunChild(fmt.Sprintf("rep%d", rep), self, nil, "batch", fmt.Sprint(rep))
			<-par
		}(rep)
	}
	cwg.Wait()
	raceVerdict(r, "weed/util/log_buffer.")

	// totals over the children
	sum := func(suffix string) int64 {
		var t int64
		for rep := 0; rep < repeats; rep++ {
			t += r.Counter(fmt.Sprintf("rep%d.%s", rep, suffix))
		}
		return t
	}
	for _, k := range []string{"events", "events_with_bumped_timestamp", "rotations_flushes", "disk_fallbacks", "events_delivered_from_disk", "events_delivered_from_memory", "subscribers", "subscribers_expecting_events", "schedules_lag_le2", "schedules_lag_3", "schedules_lag_ge4"} {
		r.Note("total_"+k, sum(k))
	}
	if sum("events") == 0 || sum("rotations_flushes") == 0 || sum("disk_fallbacks") == 0 || sum("schedules_lag_le2") == 0 {
		r.Inconclusive("nothing observed (events / rotations / disk fall-backs / in-step schedules)")
	}
	r.Finish(r.Pick(20, 100))
}
