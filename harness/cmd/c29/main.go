// C29 — S3 keys never escape their bucket.
// Real cluster; canary files outside bucket B (another bucket, /etc, /topics, the
// root, a bucket whose name extends B's) and inside B's internal upload area.
// Hostile object keys, upload ids, copy sources, batch-delete keys and POST-policy
// form keys are sent over raw sockets (no client-side normalisation) to every S3
// route of bucket B. Oracle: full recursive dump of the filer namespace before and
// after every request (diff must stay inside /buckets/B/, and outside B's .uploads
// for ordinary object routes) + response bodies / copied objects scanned for
// canary markers.
package main

import (
	"encoding/json"
	"encoding/xml"
	"fmt"
	"io/ioutil"
	"math/rand"
	"os"
	"sort"
	"strings"
	"time"

	"verifharness/lib"
)

const (
	A  = "c29a"
	B  = "c29b"
	B2 = "c29b2" // B's name plus a suffix: catches "/buckets/<bucket>" + key joined without '/'

	accessKey = "verifC29key"
	secretKey = "verifC29secret0123456789"
)

type canary struct {
	Path     string `json:"path"`
	Marker   string `json:"marker"`
	Home     string `json:"home_bucket"` // "" = not in any bucket
	Internal bool   `json:"internal"`    // lives in a .uploads area
}

type hcase struct {
	Route   string   `json:"route"`
	Vector  string   `json:"vector"` // key | uploadId | copy-source | batch-key | form-key
	Pattern string   `json:"pattern"`
	Tmpl    string   `json:"template"`
	More    []string `json:"more,omitempty"` // further batch keys
}

type world struct {
	r        *lib.Run
	s3       *lib.RawHTTP // gateway without identities (raw)
	s3c      *lib.S3
	auth     *lib.RawHTTP // gateway with identities (POST policy)
	filer    *lib.RawHTTP
	fc       *lib.FilerClient
	idA, idB string
	tmpId    string
	canaries []canary
	snap     map[string]lib.FEntry
	nonce    string
	seq      int
}

var skipDirs = map[string]bool{"/topics/.system": true}

func (w *world) dump() map[string]lib.FEntry {
	d, err := w.fc.Dump("/", skipDirs)
	if err != nil {
		w.r.Inconclusive("filer dump failed: " + err.Error())
		return nil
	}
	w.r.Count("namespace_dumps", 1)
	return d
}

func (w *world) subst(t string) string {
	return strings.NewReplacer("{A}", A, "{B}", B, "{B2}", B2, "{IDA}", w.idA, "{IDB}", w.idB, "{TMP}", w.tmpId).Replace(t)
}

// ---- baseline

func (w *world) filerPut(path string, data []byte) error {
	resp, err := lib.FilerHTTP(w.filer, "PUT", path, "", nil, data)
	if err != nil {
		return err
	}
	if resp.Status >= 300 {
		return fmt.Errorf("filer PUT %s -> %d %s", path, resp.Status, resp.Body)
	}
	return nil
}

func (w *world) filerGet(path string) ([]byte, int) {
	resp, err := lib.FilerHTTP(w.filer, "GET", path, "", nil, nil)
	if err != nil {
		return nil, 0
	}
	return resp.Body, resp.Status
}

func (w *world) newUpload(bucket, key, marker string) (string, error) {
	id, resp, err := w.s3c.InitiateMultipart(bucket, key)
	if err != nil || id == "" {
		st := 0
		if resp != nil {
			st = resp.Status
		}
		return "", fmt.Errorf("initiate %s/%s: %v status %d", bucket, key, err, st)
	}
	resp, err = w.s3c.UploadPart(bucket, key, id, 1, []byte(marker))
	if err != nil || resp.Status != 200 {
		return "", fmt.Errorf("upload part: %v", err)
	}
	return id, nil
}

// ensureBaseline (re)creates every canary that is missing or altered and removes
// nothing; returns false when the harness cannot restore the state.
func (w *world) ensureBaseline() bool {
	mk := func(n string) string { return "CANARY[" + n + ":" + w.nonce + "]" }
	files := []canary{
		{Path: "/buckets/" + A + "/canary-a.txt", Marker: mk("bucket-a"), Home: A},
		{Path: "/buckets/" + A + "/dir/canary-a2.txt", Marker: mk("bucket-a-dir"), Home: A},
		{Path: "/buckets/" + B2 + "/canary-b2.txt", Marker: mk("bucket-b2"), Home: B2},
		{Path: "/etc/canary-etc.txt", Marker: mk("etc")},
		{Path: "/topics/canary-topics.txt", Marker: mk("topics")},
		{Path: "/canary-root.txt", Marker: mk("root")},
		{Path: "/buckets/" + B + "/inb/obj1", Marker: "INSIDE-B[obj1:" + w.nonce + "]", Home: B},
		{Path: "/buckets/" + B + "/inb/obj2", Marker: "INSIDE-B[obj2:" + w.nonce + "]", Home: B},
	}
	for _, c := range files {
		got, st := w.filerGet(c.Path)
		if st != 200 || string(got) != c.Marker+" payload" {
			if err := w.filerPut(c.Path, []byte(c.Marker+" payload")); err != nil {
				w.r.Inconclusive("cannot restore canary: " + err.Error())
				return false
			}
			w.r.Count("canaries_written", 1)
		}
	}
	// a tag on A's canary object (set through bucket A's own tagging route): readable only via A
	tagMarker := "CANARYTAG-bucket-a-" + w.nonce
	if tg, err := w.s3.Do("GET", "/"+A+"/canary-a.txt?tagging=", nil, nil); err != nil || !strings.Contains(string(tg.Body), tagMarker) {
		body := `<Tagging xmlns="http://s3.amazonaws.com/doc/2006-03-01/"><TagSet><Tag><Key>secret</Key><Value>` + tagMarker + `</Value></Tag></TagSet></Tagging>`
		if resp, err := w.s3.Do("PUT", "/"+A+"/canary-a.txt?tagging=", nil, []byte(body)); err != nil || resp.Status/100 != 2 {
			w.r.Inconclusive(fmt.Sprintf("cannot tag the canary of bucket A: %v", err))
			return false
		}
	}
	// in-progress uploads (internal areas of A and B)
	mA, mB := mk("uploads-of-a"), mk("uploads-of-b")
	chk := func(bucket, id, marker string) bool {
		if id == "" {
			return false
		}
		got, st := w.filerGet("/buckets/" + bucket + "/.uploads/" + id + "/0001.part")
		return st == 200 && string(got) == marker
	}
	if !chk(A, w.idA, mA) {
		id, err := w.newUpload(A, "pending/a", mA)
		if err != nil {
			w.r.Inconclusive("cannot restore upload in A: " + err.Error())
			return false
		}
		w.idA = id
	}
	if !chk(B, w.idB, mB) {
		id, err := w.newUpload(B, "pending/b", mB)
		if err != nil {
			w.r.Inconclusive("cannot restore upload in B: " + err.Error())
			return false
		}
		w.idB = id
	}
	w.canaries = append(append(files[:6:6], canary{Path: "/buckets/" + A + "/canary-a.txt (tag)", Marker: tagMarker, Home: A}),
		canary{Path: "/buckets/" + A + "/.uploads/" + w.idA + "/0001.part", Marker: mA, Home: A, Internal: true},
		canary{Path: "/buckets/" + B + "/.uploads/" + w.idB + "/0001.part", Marker: mB, Home: B, Internal: true})
	return true
}

// ---- classification

func family(c hcase, val string) string {
	if c.Vector == "listing" {
		return "upload-in-progress"
	}
	low := strings.ToLower(val)
	for _, m := range c.More { // a batch is as hostile as its worst key
		if strings.Contains(m, "..") {
			low, val = low+"|"+strings.ToLower(m), val+"|"+m
		}
	}
	switch {
	case len(val) > 1000:
		return "long"
	case strings.Contains(low, "%25"):
		return "double-encoded"
	case strings.Contains(low, "%2e%2e") || (strings.Contains(low, "..") && (strings.Contains(low, "%2f") || strings.Contains(low, "%5c"))):
		return "dotdot-encoded"
	case strings.Contains(val, ".."):
		return "dotdot"
	case strings.Contains(low, "%00") || strings.Contains(val, "\x00"):
		return "nul"
	case c.Vector == "form-key" && !strings.HasPrefix(val, "/"):
		return "no-leading-slash"
	case strings.Contains(strings.NewReplacer("%2e", ".", "%2E", ".").Replace(val), ".uploads"):
		return "uploads-internal"
	case strings.HasPrefix(val, "/") || strings.Contains(val, "//") || strings.HasPrefix(low, "%2f"):
		return "empty-segment"
	case strings.Contains(val, "\\"):
		return "backslash"
	}
	return "other"
}

var multipartRoutes = map[string]bool{"initiate": true, "complete-key": true, "part-put": true, "complete": true, "abort": true, "list-parts": true, "part-copy": true, "part-copy-src": true}

// ---- request construction

type request struct {
	Gateway string   `json:"gateway"`
	Method  string   `json:"method"`
	Target  string   `json:"target"`
	Header  []string `json:"header,omitempty"`
	Body    string   `json:"body,omitempty"`
	Value   string   `json:"hostile_value"`
	SrcBkt  string   `json:"named_source_bucket,omitempty"`
}

const taggingXML = `<Tagging xmlns="http://s3.amazonaws.com/doc/2006-03-01/"><TagSet><Tag><Key>hostile</Key><Value>tag</Value></Tag></TagSet></Tagging>`

func (w *world) materialise(c hcase) (request, bool) {
	v := w.subst(c.Tmpl)
	rq := request{Gateway: "s3", Value: v}
	obj := func(key, q string) string {
		t := "/" + B + "/" + key
		if q != "" {
			t += "?" + q
		}
		return t
	}
	w.seq++
	switch c.Route {
	case "get":
		rq.Method, rq.Target = "GET", obj(v, "")
	case "head":
		rq.Method, rq.Target = "HEAD", obj(v, "")
	case "put":
		rq.Method, rq.Target, rq.Body = "PUT", obj(v, ""), "HOSTILE-WRITE"
	case "delete":
		rq.Method, rq.Target = "DELETE", obj(v, "")
	case "get-tagging":
		rq.Method, rq.Target = "GET", obj(v, "tagging=")
	case "put-tagging":
		rq.Method, rq.Target, rq.Body = "PUT", obj(v, "tagging="), taggingXML
	case "delete-tagging":
		rq.Method, rq.Target = "DELETE", obj(v, "tagging=")
	case "copy-dst":
		rq.Method, rq.Target = "PUT", obj(v, "")
		rq.Header = []string{"X-Amz-Copy-Source", "/" + B + "/inb/obj1"}
	case "initiate":
		rq.Method, rq.Target = "POST", obj(v, "uploads=")
	case "complete-key":
		id, err := w.newUpload(B, "tmp/complete", "TMP-PART")
		if err != nil {
			w.r.Inconclusive("setup of a temporary upload failed: " + err.Error())
			return rq, false
		}
		w.tmpId = id
		rq.Method, rq.Target, rq.Body = "POST", obj(v, "uploadId="+id), "<CompleteMultipartUpload><Part><PartNumber>1</PartNumber><ETag>x</ETag></Part></CompleteMultipartUpload>"
	case "part-put":
		rq.Method, rq.Target, rq.Body = "PUT", obj("pending/b", "partNumber=3&uploadId="+lib.S3QueryEscape(v)), "HOSTILE-PART"
	case "part-copy":
		rq.Method, rq.Target = "PUT", obj("pending/b", "partNumber=4&uploadId="+lib.S3QueryEscape(v))
		rq.Header = []string{"X-Amz-Copy-Source", "/" + B + "/inb/obj1"}
	case "complete":
		rq.Method, rq.Target, rq.Body = "POST", obj("hostile/completed", "uploadId="+lib.S3QueryEscape(v)), "<CompleteMultipartUpload><Part><PartNumber>1</PartNumber><ETag>x</ETag></Part></CompleteMultipartUpload>"
	case "abort":
		rq.Method, rq.Target = "DELETE", obj("pending/b", "uploadId="+lib.S3QueryEscape(v))
	case "list-parts":
		rq.Method, rq.Target = "GET", obj("pending/b", "uploadId="+lib.S3QueryEscape(v))
	case "copy-src":
		rq.Method, rq.Target = "PUT", obj(fmt.Sprintf("copydst/%d", w.seq), "")
		rq.Header = []string{"X-Amz-Copy-Source", v}
	case "part-copy-src":
		rq.Method, rq.Target = "PUT", obj("pending/b", "partNumber=7&uploadId="+w.idB)
		rq.Header = []string{"X-Amz-Copy-Source", v}
	case "list-v1", "list-v2":
		// template = "<prefix>|<delimiter>": the hostile part is what the listing may reveal, not the request
		pd := strings.SplitN(v, "|", 2)
		q := []string{}
		if c.Route == "list-v2" {
			q = append(q, "list-type=2")
		}
		if pd[0] != "" {
			q = append(q, "prefix="+lib.S3QueryEscape(pd[0]))
		}
		if len(pd) > 1 && pd[1] != "" {
			q = append(q, "delimiter="+lib.S3QueryEscape(pd[1]))
		}
		rq.Method, rq.Target = "GET", "/"+B
		if len(q) > 0 {
			rq.Target += "?" + strings.Join(q, "&")
		}
	case "batch-delete":
		var b strings.Builder
		b.WriteString("<Delete>")
		for _, k := range append([]string{v}, c.More...) {
			b.WriteString("<Object><Key>" + xmlEsc(w.subst(k)) + "</Key></Object>")
		}
		b.WriteString("</Delete>")
		rq.Method, rq.Target, rq.Body = "POST", "/"+B+"?delete=", b.String()
		rq.Header = []string{"Content-Type", "application/xml"}
	case "post-policy":
		ct, body := lib.PostPolicyForm(B, v, []byte("HOSTILE-POST"), accessKey, secretKey, "us-east-1", time.Now().UTC())
		rq.Gateway, rq.Method, rq.Target, rq.Body = "s3auth", "POST", "/"+B, string(body)
		rq.Header = []string{"Content-Type", ct}
	default:
		return rq, false
	}
	if c.Vector == "copy-source" {
		dec := v
		for _, pair := range [][2]string{{"%2F", "/"}, {"%2f", "/"}} {
			dec = strings.ReplaceAll(dec, pair[0], pair[1])
		}
		rq.SrcBkt = strings.SplitN(strings.TrimPrefix(dec, "/"), "/", 2)[0]
	}
	return rq, true
}

func xmlEsc(s string) string {
	return strings.NewReplacer("&", "&amp;", "<", "&lt;", ">", "&gt;").Replace(s)
}

// ---- one hostile request

func (w *world) run(c hcase) {
	r := w.r
	if w.snap == nil {
		w.snap = w.dump()
		if w.snap == nil {
			return
		}
	}
	rq, ok := w.materialise(c)
	if !ok {
		return
	}
	if c.Route == "complete-key" { // the setup changed B/.uploads
		w.snap = w.dump()
	}
	r.Case(map[string]interface{}{"case": c, "request": short(rq)})
	h := w.s3
	if rq.Gateway == "s3auth" {
		h = w.auth
	}
	resp, err := h.Do(rq.Method, rq.Target, rq.Header, []byte(rq.Body))
	status := 0
	var body []byte
	if err != nil {
		r.Count("requests_connection_closed_or_unparsable", 1)
	} else {
		status, body = resp.Status, resp.Body
	}
	r.Count("requests", 1)
	r.Count(fmt.Sprintf("status_%dxx", status/100), 1)
	r.Count("route_"+c.Route, 1)
	after := w.dump()
	if after == nil {
		return
	}
	r.Eval(1)
	fam := family(c, rq.Value)
	sig := func(class string) lib.Sig {
		return lib.Sig{"route": c.Route, "vector": c.Vector, "class": class, "input": fam}
	}
	detail := func(msg string, extra interface{}) map[string]interface{} {
		return map[string]interface{}{"msg": msg, "case": c, "request": short(rq), "status": status, "response_head": string(body[:min(len(body), 300)]), "extra": extra}
	}
	damaged := false
	violation := func(sg lib.Sig, d map[string]interface{}) {
		lib.DebugDump("C29", sg, d)
		r.Violation(sg, d)
	}
	created, removed, changed := lib.DiffDumps(w.snap, after)
	inB := func(p string) bool { return p == "/buckets/"+B || strings.HasPrefix(p, "/buckets/"+B+"/") }
	inUploads := func(p string) bool {
		return p == "/buckets/"+B+"/.uploads" || strings.HasPrefix(p, "/buckets/"+B+"/.uploads/")
	}
	report := map[string][]string{}
	for kind, list := range map[string][]string{"created": created, "removed": removed, "changed": changed} {
		for _, p := range list {
			switch {
			case !inB(p):
				report["outside-"+kind] = append(report["outside-"+kind], p)
			case inUploads(p) && !multipartRoutes[c.Route]:
				report["uploads-"+kind] = append(report["uploads-"+kind], p)
			case inUploads(p) && c.Route == "complete-key":
				// the completion legitimately removes its own upload directory
				own := "/buckets/" + B + "/.uploads/" + w.tmpId
				if !(kind == "removed" && (p == own || strings.HasPrefix(p, own+"/"))) {
					report["uploads-"+kind] = append(report["uploads-"+kind], p)
				}
			}
		}
	}
	for _, p := range removed {
		if p == "/buckets/"+B { // the bucket's own entry lives in /buckets, not inside the bucket
			report["bucket-dir-removed"] = append(report["bucket-dir-removed"], p)
		}
	}
	if strings.HasPrefix(c.Route, "list-") && status == 200 {
		var lr lib.S3ListResult
		if xml.Unmarshal(body, &lr) == nil {
			r.Count("listings_parsed", 1)
			var shown []string
			for _, k := range lr.Contents {
				if strings.HasPrefix(k.Key, ".uploads") {
					shown = append(shown, "key "+k.Key)
				}
			}
			for _, cp := range lr.CommonPrefixes {
				if strings.HasPrefix(cp.Prefix, ".uploads") {
					shown = append(shown, "common prefix "+cp.Prefix)
				}
			}
			if len(shown) > 0 {
				violation(sig("uploads-listed"), detail("a bucket listing presents the internal upload area as ordinary bucket content", shown))
			}
		} else {
			r.Count("listings_unparsable", 1)
		}
	}
	for class, paths := range report {
		sort.Strings(paths)
		damaged = true
		msg := "filer entries outside /buckets/" + B + "/ " + strings.TrimPrefix(class, "outside-")
		if class == "bucket-dir-removed" {
			msg = "the bucket directory itself (an entry of /buckets) was removed by an object-level request"
		} else if strings.HasPrefix(class, "uploads-") {
			msg = "entries of the internal upload area " + strings.TrimPrefix(class, "uploads-") + " through an ordinary object route"
		}
		violation(sig(class), detail(msg, paths))
	}
	fmt.Printf("trace %d %s %s %s status=%d created=%q removed=%q changed=%q\n", w.seq, c.Route, c.Vector, c.Pattern, status, trunc(created), trunc(removed), trunc(changed))
	if len(created)+len(removed)+len(changed) > 0 {
		r.Count("requests_with_namespace_effect", 1)
		if len(report) == 0 {
			r.Count("requests_with_effect_confined_to_bucket", 1)
		}
	}
	// canary content in the response
	for _, cn := range w.canaries {
		if !strings.Contains(string(body), cn.Marker) {
			continue
		}
		switch {
		case cn.Internal && cn.Home == B:
			violation(sig("uploads-readable"), detail("response carries the content of a part file of B's internal upload area", cn))
		default:
			violation(sig("canary-leaked"), detail("response carries the content of an entry outside bucket "+B, cn))
		}
	}
	// copies: what did the destination receive?
	if c.Vector == "copy-source" {
		for _, p := range append(append([]string{}, created...), changed...) {
			if !inB(p) || after[p].IsDir {
				continue
			}
			got, _ := w.filerGet(p)
			for _, cn := range w.canaries {
				if !strings.Contains(string(got), cn.Marker) {
					continue
				}
				damaged = true // remove the copy so later responses are not polluted
				if cn.Internal || cn.Home != rq.SrcBkt || cn.Home == "" {
					violation(sig("copy-source-escape"), detail(fmt.Sprintf("copy stored content from %s although the copy source names bucket %q (internal=%v)", cn.Path, rq.SrcBkt, cn.Internal), map[string]interface{}{"destination": p, "canary": cn}))
				} else {
					r.Count("legit_cross_bucket_copies", 1)
				}
			}
		}
	}
	nontrivial := status/100 == 2 || status/100 == 3 || len(created)+len(removed)+len(changed) > 0
	if nontrivial {
		r.Nontrivial(c.Route + "|" + c.Vector + "|" + c.Pattern)
	}
	if w.seq%97 == 1 {
		r.Sample(map[string]interface{}{"case": c, "request": short(rq), "status": status, "created": created, "removed": removed, "changed": changed})
	}
	if damaged {
		// undo: drop what appeared outside B or inside a polluted destination, rewrite canaries
		for _, p := range created {
			if strings.Contains(p+"/", "/../") || strings.Contains(p+"/", "/./") {
				continue // the filer cleans dir+name on delete: removing an entry literally named '.' or '..' would hit its parent
			}
			if !inB(p) || c.Vector == "copy-source" {
				i := strings.LastIndex(p, "/")
				dir := p[:i]
				if dir == "" {
					dir = "/"
				}
				_ = w.fc.DeletePath(dir, p[i+1:])
			}
		}
		if !w.ensureBaseline() {
			return
		}
		r.Count("baseline_restored", 1)
		w.snap = w.dump()
	} else {
		w.snap = after
		// keep the namespace small: drop what the request created inside B (top-most entries only)
		sort.Strings(created)
		var dropped []string
		for _, p := range created {
			under := false
			for _, d := range dropped {
				if strings.HasPrefix(p, d+"/") {
					under = true
				}
			}
			if under || !inB(p) || p == "/buckets/"+B+"/.uploads" || strings.Contains(p+"/", "/../") || strings.Contains(p+"/", "/./") {
				continue
			}
			i := strings.LastIndex(p, "/")
			if w.fc.DeletePath(p[:i], p[i+1:]) == nil {
				dropped = append(dropped, p)
			}
		}
		for _, d := range dropped {
			for p := range w.snap {
				if p == d || strings.HasPrefix(p, d+"/") {
					delete(w.snap, p)
				}
			}
		}
		// B's own baseline objects / pending upload touched (overwritten, deleted, completed): put them back
		touched := false
		for _, p := range append(append([]string{}, removed...), changed...) {
			if strings.HasPrefix(p, "/buckets/"+B+"/inb/") || strings.HasPrefix(p, "/buckets/"+B+"/.uploads/"+w.idB) {
				touched = true
			}
		}
		if touched && w.ensureBaseline() {
			w.snap = w.dump()
		}
	}
}

func trunc(l []string) []string {
	if len(l) > 6 {
		return append(append([]string{}, l[:6]...), fmt.Sprintf("...(%d)", len(l)))
	}
	return l
}

// legitDeletes: ordinary (non-hostile) single and batch deletes that empty a bucket, in a
// bucket that never had a multipart upload and in one with an upload in progress. Only
// entries strictly inside the bucket (and outside its .uploads) may disappear; the bucket
// directory itself and everything else must survive.
func (w *world) legitDeletes() {
	r := w.r
	keys := []string{"k1", "dir/k2", "dir/sub/k3"}
	for _, bk := range []struct {
		name   string
		upload bool
	}{{"c29d", false}, {"c29e", true}} {
		if resp, err := w.s3c.PutBucket(bk.name); err != nil || resp.Status != 200 {
			r.Inconclusive(fmt.Sprintf("create bucket %s: %v", bk.name, err))
			return
		}
		input := "empties-bucket-without-uploads"
		if bk.upload {
			if _, err := w.newUpload(bk.name, "pending/x", "LEGIT-PART"); err != nil {
				r.Inconclusive("upload in " + bk.name + ": " + err.Error())
				return
			}
			input = "empties-bucket-with-upload-in-progress"
		}
		root := "/buckets/" + bk.name
		fill := func(ks []string) bool {
			for _, k := range ks {
				if resp, err := w.s3c.PutObject(bk.name, k, []byte("legit "+k)); err != nil || resp.Status != 200 {
					r.Inconclusive("PUT " + bk.name + "/" + k + " failed")
					return false
				}
			}
			return true
		}
		step := func(route, name string, ks []string, do func() (int, error)) {
			before := w.dump()
			if before == nil {
				return
			}
			r.Case(map[string]interface{}{"legit_delete": name, "bucket": bk.name, "keys": ks})
			status, err := do()
			after := w.dump()
			if after == nil {
				return
			}
			r.Eval(1)
			r.Count("legit_delete_steps", 1)
			created, removed, changed := lib.DiffDumps(before, after)
			fmt.Printf("trace legit %s %s %s status=%d err=%v created=%q removed=%q changed=%q\n", bk.name, route, name, status, err, trunc(created), trunc(removed), trunc(changed))
			det := func(msg string, paths []string) map[string]interface{} {
				return map[string]interface{}{"msg": msg, "bucket": bk.name, "step": name, "keys": ks, "status": status, "paths": paths, "removed": removed, "created": created, "changed": changed}
			}
			sg := func(class string) lib.Sig {
				return lib.Sig{"route": route, "vector": "legit-key", "class": class, "input": input}
			}
			var bad, internals []string
			for _, p := range removed {
				switch {
				case p == root:
					d := det("a delete of ordinary keys removed the bucket directory itself (DeleteEntry on /buckets)", []string{p})
					lib.DebugDump("C29", sg("bucket-dir-removed"), d)
					r.Violation(sg("bucket-dir-removed"), d)
				case !strings.HasPrefix(p, root+"/"):
					bad = append(bad, p)
				case strings.HasPrefix(p, root+"/.uploads"):
					internals = append(internals, p)
				}
			}
			for _, p := range append(append([]string{}, created...), changed...) {
				if p != root && !strings.HasPrefix(p, root+"/") {
					bad = append(bad, p)
				}
			}
			if len(bad) > 0 {
				r.Violation(sg("outside-touched"), det("a delete of ordinary keys touched entries outside the bucket", bad))
			}
			if len(internals) > 0 {
				r.Violation(sg("uploads-removed"), det("a delete of ordinary keys removed entries of the internal upload area", internals))
			}
			if _, ok := after[root]; ok && len(removed) > 0 {
				r.Nontrivial("legit|" + bk.name + "|" + name)
			}
		}
		batch := func(ks []string) func() (int, error) {
			return func() (int, error) {
				_, resp, err := w.s3c.DeleteObjects(bk.name, ks)
				if resp != nil {
					return resp.Status, err
				}
				return 0, err
			}
		}
		if !fill(keys) {
			return
		}
		step("batch-delete", "all keys in one batch", keys, batch(keys))
		if !fill(keys) {
			return
		}
		step("batch-delete", "first two keys (leaves one)", keys[:2], batch(keys[:2]))
		step("batch-delete", "the last key", keys[2:], batch(keys[2:]))
		if !fill(keys[:1]) {
			return
		}
		step("batch-delete", "the only key of the bucket", keys[:1], batch(keys[:1]))
		if !fill(keys) {
			return
		}
		for i, k := range keys {
			k := k
			step("delete", fmt.Sprintf("single delete %d of %d", i+1, len(keys)), []string{k}, func() (int, error) {
				resp, err := w.s3c.DeleteObject(bk.name, k)
				if resp != nil {
					return resp.Status, err
				}
				return 0, err
			})
		}
	}
	w.snap = nil
}

func short(rq request) request {
	if len(rq.Target) > 400 {
		rq.Target = rq.Target[:200] + fmt.Sprintf("...(%d bytes)...", len(rq.Target)) + rq.Target[len(rq.Target)-100:]
	}
	if len(rq.Value) > 400 {
		rq.Value = rq.Value[:200] + fmt.Sprintf("...(%d bytes)", len(rq.Value))
	}
	if len(rq.Body) > 600 {
		rq.Body = rq.Body[:600] + "..."
	}
	return rq
}

func min(a, b int) int {
	if a < b {
		return a
	}
	return b
}

// ---- case lists

type pat struct{ name, tmpl string }

var keyPatterns = []pat{
	{"dotdot-sibling-bucket", "../{A}/canary-a.txt"},
	{"dotdot-etc", "../../etc/canary-etc.txt"},
	{"dotdot-root", "../../canary-root.txt"},
	{"dotdot-enc-slash", "..%2F..%2Fetc%2Fcanary-etc.txt"},
	{"dotdot-enc-dots", "%2e%2e/%2e%2e/etc/canary-etc.txt"},
	{"dotdot-enc-all", "%2E%2E%2F{A}%2Fcanary-a.txt"},
	{"dotdot-mid", "x/../../{A}/canary-a.txt"},
	{"dotdot-deep-topics", "x/y/../../../../topics/canary-topics.txt"},
	{"dot-dotdot", "./../{A}/dir/canary-a2.txt"},
	{"dotdot-b2", "../{B2}/canary-b2.txt"},
	{"dotdot-only", ".."},
	{"dotdot-slash", "../"},
	{"dotdot-bucket-dir", "../{A}"},
	{"dotdot-bucket-dir-slash", "../{A}/"},
	{"dotdot-subdir", "../{A}/dir"},
	{"dotdot-uploads-of-a", "../{A}/.uploads/{IDA}/0001.part"},
	{"trailing-dotdot", "inb/../.."},
	{"backslash", "..\\{A}\\canary-a.txt"},
	{"backslash-enc", "..%5C{A}%5Ccanary-a.txt"},
	{"abs-double-slash", "/etc/canary-etc.txt"},
	{"abs-enc-slash", "%2Fetc%2Fcanary-etc.txt"},
	{"abs-dotdot", "/../{A}/canary-a.txt"},
	{"uploads-part", ".uploads/{IDB}/0001.part"},
	{"uploads-part-enc", ".uploads%2F{IDB}%2F0001.part"},
	{"uploads-part-dot", "./.uploads/{IDB}/0001.part"},
	{"uploads-part-dotdot", "x/../.uploads/{IDB}/0001.part"},
	{"uploads-part-dslash", "/.uploads/{IDB}/0001.part"},
	{"uploads-new-part", ".uploads/{IDB}/0002.part"},
	{"uploads-dir", ".uploads/{IDB}"},
	{"uploads-root", ".uploads"},
	{"uploads-root-slash", ".uploads/"},
	{"nul", "..%00/{A}/canary-a.txt"},
	{"nul-mid", "inb%00/../../{A}/canary-a.txt"},
	{"long-dotdot", strings.Repeat("../", 150) + "etc/canary-etc.txt"},
	{"long-name", strings.Repeat("L", 3000)},
	{"double-encoded", "%252e%252e/%252e%252e/etc/canary-etc.txt"},
	{"semicolon", "..;/{A}/canary-a.txt"},
	{"overlong-utf8", "..%c0%af{A}%c0%afcanary-a.txt"},
	{"control-legit-key", "inb/obj2"},
}

var keyRoutes = []string{"get", "head", "put", "delete", "get-tagging", "put-tagging", "delete-tagging", "copy-dst", "initiate", "complete-key"}

var uploadIdPatterns = []pat{
	{"dotdot-uploads-of-a", "../../{A}/.uploads/{IDA}"},
	{"dotdot-bucket-a", "../../{A}"},
	{"dotdot-dir-of-a", "../../{A}/dir"},
	{"dotdot-etc", "../../../etc"},
	{"dotdot-topics", "../../../topics"},
	{"dotdot-b2", "../../{B2}"},
	{"dotdot-only", ".."},
	{"dot", "."},
	{"dotdot-inb", "../inb"},
	{"id-dotdot-inb", "{IDB}/../../inb"},
	{"id-part", "{IDB}/0001.part"},
	{"dotdot-root", "../../.."},
	{"long", strings.Repeat("../", 200) + "etc"},
	{"control-legit-id", "{IDB}"},
}

var uploadIdRoutes = []string{"part-put", "part-copy", "list-parts", "complete", "abort"}

var copySrcPatterns = []pat{
	{"named-b-dotdot-a", "/{B}/../{A}/canary-a.txt"},
	{"named-a-dotdot-etc", "{A}/../../etc/canary-etc.txt"},
	{"named-a-enc-slash-etc", "/{A}/..%2F..%2Fetc%2Fcanary-etc.txt"},
	{"named-a-enc-dots-etc", "{A}/%2e%2e/%2e%2e/etc/canary-etc.txt"},
	{"named-a-dotdot-b2", "{A}/../{B2}/canary-b2.txt"},
	{"named-a-dotdot-root", "{A}/../../canary-root.txt"},
	{"named-b-dslash-etc", "/{B}//etc/canary-etc.txt"},
	{"uploads-of-b", "/{B}/.uploads/{IDB}/0001.part"},
	{"uploads-of-a", "{A}/.uploads/{IDA}/0001.part"},
	{"uploads-of-b-enc", "%2F{B}%2F.uploads%2F{IDB}%2F0001.part"},
	{"named-b-dotdot", "{B}/.."},
	{"control-legit-cross-bucket", "/{A}/canary-a.txt"},
	{"control-legit-same-bucket", "/{B}/inb/obj2"},
}

var batchPatterns = []pat{
	{"dotdot-sibling-bucket", "../{A}/canary-a.txt"},
	{"dotdot-etc", "../../etc/canary-etc.txt"},
	{"dotdot-root", "../../canary-root.txt"},
	{"abs-dotdot", "/../{A}/dir/canary-a2.txt"},
	{"dotdot-mid", "x/../../{A}/canary-a.txt"},
	{"inb-dotdot", "inb/../../{A}/canary-a.txt"},
	{"dotdot-b2", "../{B2}/canary-b2.txt"},
	{"dotdot-bucket-dir", "../{A}"},
	{"dotdot-only", ".."},
	{"uploads-part", ".uploads/{IDB}/0001.part"},
	{"uploads-dir", ".uploads/{IDB}"},
	{"uploads-root", ".uploads"},
	{"abs-double-slash", "//etc/canary-etc.txt"},
	{"abs-slash", "/etc/canary-etc.txt"},
	{"backslash", "..\\{A}\\canary-a.txt"},
	{"control-legit-key", "inb/obj2"},
}

var formPatterns = []pat{
	{"suffix-joins-bucket-name", "2/posted-x"},
	{"dotdot-sibling-bucket", "../{A}/posted"},
	{"abs-dotdot", "/../{A}/posted"},
	{"uploads-part", "/.uploads/{IDB}/0001.part"},
	{"dotdot-only-prefix", "/../../etc/posted"},
	{"control-legit-key", "/posted/legit"},
}

// composed patterns: leading empty segments (which the filer collapses) in front of a target
var emptyPrefixes = []pat{{"slash", "/"}, {"2slash", "//"}, {"3slash", "///"}, {"enc-slash", "%2F"}, {"enc-2slash", "%2F%2F"}, {"slash-enc-slash", "/%2F"}, {"x-2slash", "inb//"}}
var composedTargets = []pat{{"uploads-part", ".uploads/{IDB}/0001.part"}, {"uploads-new-part", ".uploads/{IDB}/0003.part"}, {"uploads-dir", ".uploads/{IDB}"}, {"dotdot-sibling", "../{A}/canary-a.txt"}}

func buildCases(r *lib.Run) []hcase {
	var cs []hcase
	for _, pre := range emptyPrefixes {
		for _, tg := range composedTargets {
			if pre.name == "x-2slash" && strings.HasPrefix(tg.tmpl, ".uploads") {
				continue // inb//.uploads/.. is a legitimate key below inb/
			}
			// quick tier: single '/' and '%2F' prefixes are already among the fixed patterns
			if r.Quick() && (pre.name == "slash" || pre.name == "enc-slash" || tg.name == "uploads-dir") {
				continue
			}
			name := "empty-" + pre.name + "+" + tg.name
			for _, rt := range keyRoutes {
				cs = append(cs, hcase{Route: rt, Vector: "key", Pattern: name, Tmpl: pre.tmpl + tg.tmpl})
			}
			plainPre := strings.NewReplacer("%2F", "/").Replace(pre.tmpl)
			cs = append(cs, hcase{Route: "batch-delete", Vector: "batch-key", Pattern: name, Tmpl: plainPre + tg.tmpl})
			for _, rt := range []string{"copy-src", "part-copy-src"} {
				cs = append(cs, hcase{Route: rt, Vector: "copy-source", Pattern: name, Tmpl: "/{B}/" + pre.tmpl + tg.tmpl})
				cs = append(cs, hcase{Route: rt, Vector: "copy-source", Pattern: name + "-nolead", Tmpl: "{B}" + pre.tmpl + tg.tmpl})
			}
			cs = append(cs, hcase{Route: "post-policy", Vector: "form-key", Pattern: name, Tmpl: plainPre + tg.tmpl})
		}
	}
	for _, p := range keyPatterns {
		for _, rt := range keyRoutes {
			cs = append(cs, hcase{Route: rt, Vector: "key", Pattern: p.name, Tmpl: p.tmpl})
		}
	}
	for _, p := range uploadIdPatterns {
		for _, rt := range uploadIdRoutes {
			cs = append(cs, hcase{Route: rt, Vector: "uploadId", Pattern: p.name, Tmpl: p.tmpl})
		}
	}
	for _, p := range copySrcPatterns {
		cs = append(cs, hcase{Route: "copy-src", Vector: "copy-source", Pattern: p.name, Tmpl: p.tmpl})
		cs = append(cs, hcase{Route: "part-copy-src", Vector: "copy-source", Pattern: p.name, Tmpl: p.tmpl})
	}
	for _, p := range batchPatterns {
		cs = append(cs, hcase{Route: "batch-delete", Vector: "batch-key", Pattern: p.name, Tmpl: p.tmpl})
	}
	cs = append(cs, hcase{Route: "batch-delete", Vector: "batch-key", Pattern: "mixed-batch", Tmpl: "inb/obj2",
		More: []string{"../{A}/dir/canary-a2.txt", ".uploads/{IDB}/0001.part", "../../topics/canary-topics.txt"}})
	// listings of B while an upload is in progress (there always is one): the internal area must not show
	for _, rt := range []string{"list-v1", "list-v2"} {
		for _, pd := range []string{"|/", "|", ".|/", ".|", ".u|/", ".uploads|/"} {
			cs = append(cs, hcase{Route: rt, Vector: "listing", Pattern: "prefix|delimiter=" + pd, Tmpl: pd})
		}
	}
	for _, p := range formPatterns {
		cs = append(cs, hcase{Route: "post-policy", Vector: "form-key", Pattern: p.name, Tmpl: p.tmpl})
	}
	// seeded generated keys / ids: segments x encodings x routes
	rng := r.SubRng("c29-generated")
	segs := []string{"..", "..", ".", "", "x", "inb", "{A}", "{B2}", "etc", "topics", ".uploads", "{IDB}", "{IDA}", "dir", "canary-a.txt", "canary-etc.txt", "canary-a2.txt", "0001.part", "buckets"}
	encSeg := func(s string) string {
		switch rng.Intn(6) {
		case 0:
			return strings.ReplaceAll(s, ".", "%2e")
		case 1:
			return strings.ReplaceAll(s, ".", "%2E")
		}
		return s
	}
	sep := func() string {
		switch rng.Intn(8) {
		case 0:
			return "%2F"
		case 1:
			return "//"
		case 2:
			return "%2f"
		}
		return "/"
	}
	n := r.Pick(60, 3000)
	for i := 0; i < n; i++ {
		k := 1 + rng.Intn(6)
		var b strings.Builder
		for j := 0; j < k; j++ {
			if j > 0 {
				b.WriteString(sep())
			}
			b.WriteString(encSeg(segs[rng.Intn(len(segs))]))
		}
		val := b.String()
		switch x := rng.Intn(10); {
		case x < 6:
			cs = append(cs, hcase{Route: keyRoutes[rng.Intn(len(keyRoutes))], Vector: "key", Pattern: "generated", Tmpl: val})
		case x < 8:
			plain := strings.NewReplacer("%2e", ".", "%2E", ".", "%2F", "/", "%2f", "/").Replace(val)
			cs = append(cs, hcase{Route: uploadIdRoutes[rng.Intn(len(uploadIdRoutes))], Vector: "uploadId", Pattern: "generated", Tmpl: plain})
		case x < 9:
			plain := strings.NewReplacer("%2e", ".", "%2E", ".", "%2F", "/", "%2f", "/").Replace(val)
			cs = append(cs, hcase{Route: "batch-delete", Vector: "batch-key", Pattern: "generated", Tmpl: plain})
		default:
			cs = append(cs, hcase{Route: []string{"copy-src", "part-copy-src"}[rng.Intn(2)], Vector: "copy-source", Pattern: "generated", Tmpl: []string{"{A}/", "/{B}/", "{B}/"}[rng.Intn(3)] + val})
		}
	}
	return cs
}

func main() {
	r := lib.Start("C29", "exploration")
	r.SetRule("hostile values (literal and percent-encoded '..', '.', empty segments, leading '/', backslashes, NUL, very long, double-encoded, names inside '.uploads', the upload directories of this and of another bucket) placed as object key on 10 object routes (GET/HEAD/PUT/DELETE, tagging GET/PUT/DELETE, copy destination, initiate, complete), as uploadId on 5 multipart routes, as copy source on CopyObject/UploadPartCopy, as batch-delete key and as POST-policy form key, plus seeded generated combinations, all sent to bucket B over raw sockets; after every request the whole filer namespace is dumped through the filer gRPC API and diffed. distinct = distinct (route, vector, pattern); non-trivial = the request was answered 2xx/3xx or changed the namespace (i.e. it was not simply refused)")
	r.Assume("copy sources are judged by S3 semantics: the copied bytes must come from inside /buckets/<bucket named by the copy source>/ and outside any .uploads area (a literal 'outside B' reading would flag every legitimate cross-bucket copy)")
	r.Assume("/topics/.system (the filer's own metadata log) is excluded from the namespace dump; entry identity = directory flag, size, mtime, chunk ids, md5, extended-attribute digests")
	r.Assume("multipart routes may change /buckets/B/.uploads; ordinary object routes (GET/HEAD/PUT/DELETE/tagging/copy/batch delete/POST policy) must not read or change it")
	r.Assume("HEAD responses carry no body: reads through HEAD are judged by the namespace diff only")

	c := lib.NewCluster(r)
	finish := func(min int) {
		c.Stop()
		r.Finish(min)
	}
	if !lib.StartS3Cluster(c, []string{"-max=300"}, nil) {
		finish(0)
	}
	authProc, ok := lib.StartS3WithIdentities(c, accessKey, secretKey)
	if !ok {
		finish(0)
	}
	w := &world{r: r, s3: lib.NewRawHTTP(c.S3.Addr()), s3c: lib.NewS3(c.S3.Addr()), auth: lib.NewRawHTTP(authProc.Addr()), filer: lib.NewRawHTTP(c.Filer.Addr())}
	w.nonce = fmt.Sprintf("%08x", rand.New(rand.NewSource(r.Seed*7919+1)).Uint32())
	fc, err := lib.NewFilerClient(c.Filer.Addr())
	if err != nil {
		r.Inconclusive("filer grpc dial: " + err.Error())
		finish(0)
	}
	w.fc = fc
	for _, b := range []string{A, B, B2} {
		resp, err := w.s3c.PutBucket(b)
		if err != nil || resp.Status != 200 {
			r.Inconclusive(fmt.Sprintf("create bucket %s: %v", b, err))
			finish(0)
		}
	}
	if !w.ensureBaseline() {
		finish(0)
	}

	var cases []hcase
	if r.Replay != "" {
		var d struct {
			Case hcase `json:"case"`
		}
		if err := r.LoadReplay(&d); err != nil {
			r.Inconclusive("load replay: " + err.Error())
			finish(0)
		}
		cases = []hcase{d.Case}
	} else {
		cases = buildCases(r)
	}
	if f := os.Getenv("C29_ONLY"); f != "" { // triage aid: route substring filter
		var keep []hcase
		for _, cse := range cases {
			for _, sub := range strings.Split(f, ",") {
				if strings.Contains(cse.Route+"|"+cse.Vector+"|"+cse.Pattern, sub) {
					keep = append(keep, cse)
					break
				}
			}
		}
		cases = keep
	}
	r.Note("cases_planned", len(cases))
	for _, cse := range cases {
		if cse.Vector == "key" && strings.Trim(w.subst(cse.Tmpl), "/") == "" {
			r.Count("skipped_empty_key_is_a_bucket_request", 1) // DELETE /B/ is DeleteBucket: not an object key
			continue
		}
		w.run(cse)
		if r.Violations() > 300 {
			break
		}
	}
	if r.Replay == "" && os.Getenv("C29_ONLY") == "" || strings.Contains(os.Getenv("C29_ONLY"), "legit") {
		w.legitDeletes()
	}
	// self-check of the observer: a legit PUT into B must show up in the diff
	before := w.dump()
	_, _ = w.s3c.PutObject(B, "selfcheck/obj", []byte("x"))
	after := w.dump()
	if before != nil && after != nil {
		cr, _, _ := lib.DiffDumps(before, after)
		if len(cr) == 0 {
			r.Inconclusive("observer self-check failed: a plain PUT did not show up in the namespace diff")
		}
	}
	if dbg := os.Getenv("VERIF_DEBUG_DIR"); dbg != "" {
		b, _ := json.MarshalIndent(after, "", " ")
		_ = os.MkdirAll(dbg, 0755)
		_ = ioutil.WriteFile(dbg+"/c29-final-namespace.json", b, 0644)
	}
	if r.Replay != "" {
		finish(0)
	}
	if r.Counter("requests") == 0 || r.Counter("requests_with_namespace_effect") == 0 {
		r.Inconclusive("no request sent or none had any namespace effect (observer blind?)")
	}
	finish(40)
}
