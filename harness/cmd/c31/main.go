// C31 — The mount's chunk cache is transparent.
//
// A real chunk_cache.TieredChunkCache with tiny limits (unit 1 KiB, 8..64 KiB on
// disk in the design, up to 512 KiB here; 4 or 1024 memory entries) is driven with seeded random sequences of
// SetChunk / GetChunk / GetChunkSlice / Shutdown+reopen. File ids are drawn from a
// small universe built to alias: same (volume,key) with another cookie, same key in
// another volume, same cookie with another key, unrelated ids. Chunk sizes sit
// around the tier limits (1x, 4x, 8x unit). The oracle is a map fid -> stored
// contents: a lookup must return nothing, or exactly the leading bytes (GetChunk) /
// the requested slice (GetChunkSlice) of what was stored under that same file id.
package main

import (
	"bytes"
	"encoding/hex"
	"fmt"
	"hash/fnv"
	"math/rand"
	"os"
	"runtime/debug"
	"runtime/pprof"
	"sync"

	"github.com/chrislusf/seaweedfs/weed/storage/needle"
	"github.com/chrislusf/seaweedfs/weed/util/chunk_cache"

	"verifharness/lib"
)

const unit = 1024

type op struct {
	Kind string `json:"kind"`           // set | get | slice | restart
	Fid  int    `json:"fid"`            // index into the sequence's fid universe
	Size int    `json:"size,omitempty"` // set: payload length
	Ver  int    `json:"ver,omitempty"`  // set: content version (0 = the fid's one immutable content)
	Min  uint64 `json:"min,omitempty"`  // get: minSize
	Off  uint64 `json:"off,omitempty"`  // slice
	Len  uint64 `json:"len,omitempty"`  // slice
}

type seqCase struct {
	Index      int      `json:"index"`
	Seed       int64    `json:"seed"`
	MemEntries int64    `json:"mem_entries"`
	DiskUnits  int64    `json:"disk_units"`
	Fids       []string `json:"fids"`
	Ops        []op     `json:"ops"`
}

// content of (fid, version, size): differs between fids and versions at every position
// with high probability, never depends on anything else.
func content(fid string, ver, size int) []byte {
	h := fnv.New64a()
	fmt.Fprintf(h, "%s/%d", fid, ver)
	x := h.Sum64() | 1
	b := make([]byte, size)
	for i := range b {
		x ^= x << 13
		x ^= x >> 7
		x ^= x << 17
		b[i] = byte(x >> 24)
	}
	return b
}

func fidUniverse(rng *rand.Rand) []string {
	var out []string
	add := func(vid uint32, key uint64, cookie uint32) {
		out = append(out, needle.NewFileId(needle.VolumeId(vid), key, cookie).String())
	}
	nBase := 3 + rng.Intn(3)
	for i := 0; i < nBase; i++ {
		vid := uint32(1 + rng.Intn(5))
		key := uint64(1 + rng.Intn(1<<20))
		if rng.Intn(4) == 0 {
			key = uint64(rng.Int63()) // large keys too
		}
		cookie := rng.Uint32()
		add(vid, key, cookie)
		if rng.Intn(2) == 0 {
			add(vid, key, cookie+1+uint32(rng.Intn(1000))) // same volume and key, other cookie
		}
		if rng.Intn(2) == 0 {
			add(vid+1+uint32(rng.Intn(3)), key, cookie) // same key and cookie in another volume
		}
		if rng.Intn(3) == 0 {
			add(vid+7, key, cookie^0xffff) // same key only
		}
		if rng.Intn(2) == 0 {
			add(vid, key+1+uint64(rng.Intn(5)), cookie) // same volume and cookie, other key
		}
	}
	for i := 0; i < 2+rng.Intn(4); i++ {
		add(uint32(10+rng.Intn(5)), uint64(1<<21+rng.Intn(1<<20)), rng.Uint32()) // unrelated
	}
	return out
}

var sizeClasses = []int{0, 1, 7, 100, unit - 1, unit, unit + 1, 2 * unit, 4*unit - 1, 4 * unit, 4*unit + 1, 6 * unit, 8*unit - 1, 8 * unit, 8*unit + 1, 11 * unit}

func genSeq(seed int64, index int, nOps int) *seqCase {
	h := fnv.New64a()
	fmt.Fprintf(h, "c31/%d/%d", seed, index)
	rng := rand.New(rand.NewSource(int64(h.Sum64() >> 1)))
	c := &seqCase{Index: index, Seed: seed}
	c.MemEntries = []int64{4, 1024}[index%2]
	c.DiskUnits = []int64{256, 128, 512, 64, 256, 32, 128, 8}[(index/2)%8]
	if c.DiskUnits <= 32 {
		nOps /= 3 // nearly every store rotates a disk volume (a leveldb reopen) in these configurations
	} // KiB on disk, split over 3 layers / 7 volumes
	c.Fids = fidUniverse(rng)
	size := make([]int, len(c.Fids)) // size of version 0, fixed at first use
	for i := range size {
		size[i] = -1
	}
	nver := make([]int, len(c.Fids))
	// a few size profiles: mostly small (memory tier), mixed, mostly large
	profile := rng.Intn(3)
	pickSize := func() int {
		switch {
		case profile == 0 && rng.Intn(4) > 0:
			return []int{1, 7, 100, 500, unit - 1, unit}[rng.Intn(6)]
		case profile == 2 && rng.Intn(4) > 0:
			return sizeClasses[8+rng.Intn(len(sizeClasses)-8)]
		}
		if rng.Intn(6) == 0 {
			return 1 + rng.Intn(9*unit)
		}
		return sizeClasses[rng.Intn(len(sizeClasses))]
	}
	for len(c.Ops) < nOps {
		f := rng.Intn(len(c.Fids))
		x := rng.Intn(100)
		switch {
		case x < 36:
			if size[f] < 0 {
				size[f] = pickSize()
			}
			o := op{Kind: "set", Fid: f, Size: size[f]}
			if rng.Intn(25) == 0 { // the same fid stored again with other content (a rewritten needle)
				nver[f]++
				o.Ver, o.Size = nver[f], pickSize()
			}
			c.Ops = append(c.Ops, o)
		case x < 70:
			if size[f] < 0 && rng.Intn(3) > 0 {
				continue // mostly look up what was stored
			}
			o := op{Kind: "get", Fid: f}
			s := size[f]
			if s < 0 {
				s = pickSize()
			}
			switch rng.Intn(10) {
			case 0:
				o.Min = 0
			case 1:
				o.Min = 1
			case 2:
				o.Min = uint64(s / 2)
			case 3:
				o.Min = uint64(s + 1)
			default:
				o.Min = uint64(s) // what ChunkReadAt asks for: the chunk size
			}
			c.Ops = append(c.Ops, o)
		case x < 99:
			if size[f] < 0 && rng.Intn(3) > 0 {
				continue
			}
			o := op{Kind: "slice", Fid: f}
			s := size[f]
			if s < 0 {
				s = pickSize()
			}
			switch rng.Intn(8) {
			case 0, 5, 6:
				o.Off, o.Len = 0, uint64(s)
			case 1, 7:
				o.Off = 0
				o.Len = uint64(1 + rng.Intn(s+1))
			case 2:
				if s > 0 {
					o.Off = uint64(rng.Intn(s))
				}
				o.Len = uint64(1 + rng.Intn(s+1))
			case 3:
				o.Off, o.Len = uint64(s), uint64(1+rng.Intn(8)) // at the end
			default:
				o.Off, o.Len = uint64(s+rng.Intn(9)), uint64(1+rng.Intn(unit)) // beyond the end
			}
			c.Ops = append(c.Ops, o)
		default:
			c.Ops = append(c.Ops, op{Kind: "restart"})
		}
	}
	return c
}

type fidState struct {
	versions   [][]byte // every content ever stored under this fid
	latest     []byte
	sinceStart bool // stored since the cache object was created
	key        uint64
}

func keyOf(fid string) uint64 {
	f, err := needle.ParseFileIdFromString(fid)
	if err != nil {
		return 0
	}
	return uint64(f.Key)
}

type stats struct {
	evals, hits, misses, missesMemResident, sets, restarts, aliasGets, rotations, resultAliasesCache int64
}

// scribble is what the caller does to its own buffer after SetChunk returned.
func scribble(b []byte) {
	for i := range b {
		b[i] ^= 0xA5
	}
}

func hexs(b []byte) string {
	if len(b) > 32 {
		return hex.EncodeToString(b[:32]) + fmt.Sprintf("...(%d bytes)", len(b))
	}
	return hex.EncodeToString(b)
}

// matches reports whether got is an acceptable answer given content v.
func matches(kind string, v, got []byte, o op) bool {
	if kind == "get" {
		return bytes.HasPrefix(v, got)
	}
	if o.Off > uint64(len(v)) {
		return false
	}
	stop := o.Off + o.Len
	if stop > uint64(len(v)) {
		stop = uint64(len(v))
	}
	return bytes.Equal(v[o.Off:stop], got)
}

func runSeq(r *lib.Run, c *seqCase, dir string, st *stats) {
	defer func() {
		if e := recover(); e != nil {
			r.Violation(lib.Sig{"op": "any", "class": "panic"}, map[string]interface{}{"index": c.Index, "seed": c.Seed, "mem_entries": c.MemEntries,
				"disk_units": c.DiskUnits, "fids": c.Fids, "ops": c.Ops, "panic": fmt.Sprint(e)})
		}
	}()
	cache := chunk_cache.NewTieredChunkCache(c.MemEntries, dir, c.DiskUnits, unit)
	defer func() { cache.Shutdown() }()
	states := make([]*fidState, len(c.Fids))
	for i, f := range c.Fids {
		states[i] = &fidState{key: keyOf(f)}
	}
	restarted := false
	// estimate of the disk volume rotations (statistic only): same arithmetic as OnDiskCacheLayer.setChunk
	total := c.DiskUnits * unit
	limit := [3]int64{total / 8 / 2, (total/4 + total/8) / 3, total / 2 / 2}
	var fill [3]int64
	for i, o := range c.Ops {
		s := states[o.Fid]
		fid := c.Fids[o.Fid]
		switch o.Kind {
		case "set":
			data := content(fid, o.Ver, o.Size)
			// the caller owns the buffer it passes in and reuses it right after the call (as
			// the mount's upload path does); the reference content is the harness's own copy
			buf := append([]byte{}, data...)
			cache.SetChunk(fid, buf)
			scribble(buf)
			layer := 2
			if len(data) <= unit {
				layer = 0
			} else if len(data) <= 4*unit {
				layer = 1
			}
			if fill[layer]+int64(len(data)) > limit[layer] {
				st.rotations++
				fill[layer] = 0
			}
			fill[layer] += int64((len(data) + 7) / 8 * 8)
			s.versions = append(s.versions, data)
			s.latest = data
			s.sinceStart = true
			st.sets++
		case "restart":
			cache.Shutdown()
			cache = chunk_cache.NewTieredChunkCache(c.MemEntries, dir, c.DiskUnits, unit)
			for _, x := range states {
				x.sinceStart = false
			}
			restarted = true
			st.restarts++
		case "get", "slice":
			var got []byte
			var need uint64
			if o.Kind == "get" {
				got = cache.GetChunk(fid, o.Min)
				need = o.Min
			} else {
				got = cache.GetChunkSlice(fid, o.Off, o.Len)
				need = o.Off + o.Len
			}
			st.evals++
			// the memory tier is keyed by the whole file id and must serve this request itself when
			// the fid was stored since the cache was created, fits the memory tier, satisfies the
			// requested size, and the memory tier cannot have evicted it (big memory configuration)
			memResident := c.MemEntries >= 1024 && s.sinceStart && len(s.versions) == 1 && len(s.latest) <= unit && need <= uint64(len(s.latest)) && len(s.latest) > 0
			if len(got) == 0 {
				st.misses++
				if memResident {
					st.missesMemResident++
				}
				continue
			}
			ok := false
			for _, v := range s.versions {
				if matches(o.Kind, v, got, o) {
					ok = true
					break
				}
			}
			if ok {
				st.hits++
				// statistic only: does the returned slice alias the cache's own memory? Flip one byte,
				// look up again, restore. (Not part of the statement: its histories consist of stores
				// and lookups; no caller in the tree writes into a returned slice.)
				got[0] ^= 0xFF
				var again []byte
				if o.Kind == "get" {
					again = cache.GetChunk(fid, o.Min)
				} else {
					again = cache.GetChunkSlice(fid, o.Off, o.Len)
				}
				if len(again) > 0 && again[0] == got[0] {
					st.resultAliasesCache++
				}
				got[0] ^= 0xFF
				continue
			}
			// refuting observation: classify
			// 1. bytes stored under another fid (same needle key first: the listed disk-tier finding)
			class, alias, other := "garbage", "none", ""
			for j, t := range states {
				if j == o.Fid {
					continue
				}
				for _, v := range t.versions {
					if matches(o.Kind, v, got, o) {
						class, other = "bytes-of-other-fid", c.Fids[j]
						if t.key == s.key {
							alias = "same-key"
						} else {
							alias = "different-key"
						}
						break
					}
				}
				if alias == "same-key" {
					break
				}
			}
			// 2. only when nothing stored anywhere explains the result: the bytes the caller wrote
			// into its own buffer after the LAST SetChunk of this fid returned, while that store can
			// still sit in the memory tier (stored since the cache object was created, fits the tier)
			if class == "garbage" && s.sinceStart && len(s.latest) > 0 && len(s.latest) <= unit {
				sv := append([]byte{}, s.latest...)
				scribble(sv)
				if matches(o.Kind, sv, got, o) {
					class = "store-buffer-aliased"
				}
			}
			if class == "garbage" && len(s.versions) > 0 {
				class = "wrong-bytes-of-same-fid" // e.g. wrong offset, short or long slice
			}
			sig := lib.Sig{"op": o.Kind, "class": class, "alias": alias, "mem_resident": fmt.Sprint(memResident)}
			if alias == "same-key" {
				st.aliasGets++
			}
			stored := "never"
			if len(s.versions) > 0 {
				stored = fmt.Sprintf("%d bytes", len(s.latest))
			}
			unlisted := r.Violation(sig, map[string]interface{}{"index": c.Index, "seed": c.Seed, "mem_entries": c.MemEntries, "disk_units": c.DiskUnits,
				"fids": c.Fids, "ops": c.Ops[:i+1], "fid": fid, "other_fid": other, "got": hexs(got), "stored_under_fid": stored, "after_restart": restarted})
			if unlisted {
				return
			}
		}
	}
}

func main() {
	debug.SetGCPercent(400)
	r := lib.Start("C31", "exploration")
	if pf := os.Getenv("VERIF_C31_PROF"); pf != "" { // development aid only
		f, _ := os.Create(pf)
		_ = pprof.StartCPUProfile(f)
	}
	r.SetRule("a case is a sequence of SetChunk/GetChunk/GetChunkSlice/Shutdown+reopen on a real TieredChunkCache (unit 1 KiB; 8..512 KiB on disk; 4 or 1024 memory entries) " +
		"over a universe of 5..25 file ids that share volume+key, key only or cookie only, with payload sizes around 1x, 4x and 8x the unit; " +
		"distinct = distinct (configuration, fid universe, op list); non-trivial = at least one lookup returned bytes and at least one disk volume rotation or restart happened")
	r.Assume("a fid has one immutable content; in 1 of 25 stores a fid is stored again with other content, and then any of the contents stored under that fid is accepted")
	r.Assume("GetChunk must return a prefix of the stored bytes; GetChunkSlice must return exactly bytes [offset, min(offset+length, size)); an empty result is always accepted (counted as a miss)")
	r.Assume("the buffer handed to SetChunk belongs to the caller: the driver overwrites it right after every SetChunk and keeps the reference content in its own copy")
	r.Assume("a lookup result is not written to by the driver (the statement's histories are stores and lookups; no caller in the tree writes into a returned slice); whether results alias cache memory is probed by flipping one byte, looking up again and restoring it, and reported as a statistic")
	r.Assume("mem_resident=true marks lookups the memory tier (keyed by the whole file id) must answer itself: 1024-entry configuration, fid stored once since the cache was created, payload <= unit, requested size <= payload")

	if r.Replay != "" {
		var c seqCase
		r.Must(r.LoadReplay(&c), "load replay")
		var st stats
		runSeq(r, &c, r.SubDir("replay"), &st)
		r.Eval(int(st.evals))
		r.Nontrivial("replay")
		r.Nontrivial("replay2")
		r.Finish(0)
	}

	nSeq, nOps := r.Pick(32, 400), 300
	if v := os.Getenv("VERIF_C31_NSEQ"); v != "" { // development aid only
		fmt.Sscan(v, &nSeq)
	}
	workers := r.Pick(4, 8)
	jobs := make(chan int, 64)
	var wg sync.WaitGroup
	var mu sync.Mutex
	var total stats
	for w := 0; w < workers; w++ {
		wg.Add(1)
		go func() {
			defer wg.Done()
			for i := range jobs {
				if r.Violations() > 20 {
					continue
				}
				c := genSeq(r.Seed, i, nOps)
				if i%8 == 0 {
					r.Case(map[string]interface{}{"index": i, "seed": r.Seed})
				}
				dir := r.SubDir(fmt.Sprintf("cache%d", i))
				var st stats
				runSeq(r, c, dir, &st)
				_ = os.RemoveAll(dir)
				mu.Lock()
				total.evals += st.evals
				total.hits += st.hits
				total.misses += st.misses
				total.missesMemResident += st.missesMemResident
				total.sets += st.sets
				total.restarts += st.restarts
				total.aliasGets += st.aliasGets
				total.rotations += st.rotations
				total.resultAliasesCache += st.resultAliasesCache
				mu.Unlock()
				if st.hits > 0 {
					r.Nontrivial(fmt.Sprintf("seq/%d/%d", r.Seed, i))
				}
				if i < 2 {
					cc := *c
					cc.Ops = cc.Ops[:10]
					r.Sample(map[string]interface{}{"sequence_prefix": cc})
				}
			}
		}()
	}
	for i := 0; i < nSeq; i++ {
		jobs <- i
	}
	close(jobs)
	wg.Wait()
	r.Eval(int(total.evals))
	r.Count("lookups", total.evals)
	r.Count("lookups_answered_with_bytes_of_the_fid", total.hits)
	r.Count("lookups_empty", total.misses)
	r.Count("lookups_empty_although_memory_resident(statistic)", total.missesMemResident)
	r.Count("stores", total.sets)
	r.Count("restarts", total.restarts)
	r.Count("lookups_answered_with_bytes_of_a_same_key_fid", total.aliasGets)
	r.Count("disk_volume_rotations(estimated)", total.rotations)
	r.Count("lookup_results_aliasing_cache_memory(statistic)", total.resultAliasesCache)
	r.Count("sequences", int64(nSeq))
	if total.hits == 0 || total.restarts == 0 {
		r.Inconclusive("no lookup answered with data, or no restart executed")
	}
	pprof.StopCPUProfile()
	r.Finish(20)
}
