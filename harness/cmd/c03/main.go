// C03 — Volume survives a crash at any point without serving wrong data.
//
// Fault enumeration over crash images. A generated history (writes, overwrites,
// deletes; small records, records spanning several 4 KiB pages, some zero-length
// payloads) runs on a real volume; after every op the lengths of .dat and .idx are
// recorded. A crash image (d, j) is: .dat cut to d bytes, .idx cut to j entries,
// j <= number of records that lie completely inside d (the data append precedes the
// index append). Every image is loaded by the real code (Store.MountVolume ->
// NewVolume -> CheckAndFixVolumeDataIntegrity), all keys are read, new blobs are
// written and read, the volume is reloaded and read again.
//
// The parent enumerates histories; each history runs in a child process (the code
// under test may glog.Fatal), several children in parallel.
package main

import (
	"bytes"
	"fmt"
	"io/ioutil"
	"math/rand"
	"os"
	"path/filepath"
	"runtime/debug"
	"runtime/pprof"
	"sort"
	"strconv"
	"sync"
	"syscall"
	"time"

	"github.com/chrislusf/seaweedfs/weed/storage"
	"github.com/chrislusf/seaweedfs/weed/storage/needle"
	"github.com/chrislusf/seaweedfs/weed/storage/types"

	"verifharness/lib"
)

type hop struct {
	Kind string `json:"kind"` // W | D
	K    int    `json:"k"`
	Size int    `json:"size,omitempty"`
}

type history struct {
	Index int    `json:"index"`
	Map   string `json:"map"`
	Ops   []hop  `json:"ops"`
	// DMode: how densely d is enumerated: "tail2"/"tail3" (bytewise over the last 2/3
	// records, record boundaries elsewhere) or "all" (bytewise everywhere)
	DMode string `json:"dmode"`
	// JMode: "all" = every j <= records inside d; "near" = for torn d only
	// j in {m, m-1, m-2, 0} (m = records completely inside d), every j at record boundaries
	JMode string `json:"jmode"`
	// Reload: "all" = second reload on every image; "half" = on every boundary image and
	// on torn images with (d+j) even
	Reload string `json:"reload"`
}

const (
	bigRecord    = 600 // records longer than this are enumerated at edges/page borders/samples only
	newKeyBase   = 1000
	superBlockSz = 8
)

func cookieOf(k int) uint32 { return 0x51a70000 + uint32(k) }

// payload of op i (1-based) — unique inside a history, so a read identifies the version.
func payloadOf(opIndex int, o hop) []byte {
	if o.Size == 0 {
		return []byte{}
	}
	b := make([]byte, o.Size)
	rng := rand.New(rand.NewSource(int64(opIndex)*7919 + int64(o.K)))
	rng.Read(b)
	tag := []byte{byte(opIndex), byte(o.K), 0xC3, byte(opIndex) ^ 0x5a}
	copy(b, tag) // sizes are >= 4 for non-empty payloads
	return b
}

func blobOf(opIndex int, o hop) lib.BlobSpec {
	return lib.BlobSpec{Key: uint64(o.K), Cookie: cookieOf(o.K), Data: payloadOf(opIndex, o),
		Name: fmt.Sprintf("k%d-o%d", o.K, opIndex), Mime: "t/x"}
}

// genHistories is a pure function of (seed, tier).
func genHistories(r *lib.Run) []history {
	rng := r.SubRng("c03-histories")
	var out []history
	add := func(n, maxOps int, kind, dmode, jmode, reload string, allowBig bool) {
		for i := 0; i < n; i++ {
			hi := len(out)
			nops := 4 + rng.Intn(maxOps-3)
			h := history{Index: hi, Map: kind, DMode: dmode, JMode: jmode, Reload: reload}
			live := map[int]int{} // key -> size of live blob (-1 none)
			withEmpty := hi%3 == 2
			emptyDone := false
			for len(h.Ops) < nops {
				pos := len(h.Ops)
				last := pos == nops-1
				k := 1 + rng.Intn(4)
				x := rng.Intn(100)
				sz, isLive := live[k]
				switch {
				case x < 30 && isLive && sz > 0:
					h.Ops = append(h.Ops, hop{Kind: "D", K: k})
					delete(live, k)
				case isLive && sz == 0:
					// a live empty blob: do not touch that key again (deleting or overwriting an
					// empty blob has its own known quirks, see C01); pick another op
					continue
				default:
					size := 4 + rng.Intn(37)
					switch {
					case withEmpty && !emptyDone && pos >= nops/2 && !isLive:
						size = 0
						emptyDone = true
					case allowBig && last && hi%4 == 1:
						size = 8200 + rng.Intn(5000) // last record spans 3-4 pages
					case allowBig && hi%4 == 3 && pos == nops-2:
						size = 4090 + rng.Intn(12)
					case x >= 90:
						size = 100 + rng.Intn(300)
					}
					h.Ops = append(h.Ops, hop{Kind: "W", K: k, Size: size})
					live[k] = size
				}
			}
			// shape the tail: make sure tombstone-last and tombstone-then-write tails occur
			switch hi % 5 {
			case 0: // ends with a tombstone
				if kk := anyLive(live, rng); kk != 0 && h.Ops[len(h.Ops)-1].Kind != "D" {
					h.Ops = append(h.Ops, hop{Kind: "D", K: kk})
				}
			case 2: // tombstone followed by one more write
				if kk := anyLive(live, rng); kk != 0 {
					h.Ops = append(h.Ops, hop{Kind: "D", K: kk}, hop{Kind: "W", K: 1 + (kk % 4), Size: 4 + rng.Intn(30)})
					if sz, ok := live[1+(kk%4)]; ok && sz == 0 {
						h.Ops = h.Ops[:len(h.Ops)-1]
					}
				}
			}
			out = append(out, h)
		}
	}
	if r.Quick() {
		add(6, 10, "memory", "tail2", "near", "half", true)
	} else {
		add(10, 12, "memory", "tail3", "all", "all", true)
		add(2, 8, "memory", "all", "all", "half", false)
		add(2, 8, "leveldb", "tail2", "near", "half", true)
	}
	return out
}

func anyLive(live map[int]int, rng *rand.Rand) int {
	var ks []int
	for k, sz := range live {
		if sz > 0 {
			ks = append(ks, k)
		}
	}
	if len(ks) == 0 {
		return 0
	}
	sort.Ints(ks)
	return ks[rng.Intn(len(ks))]
}

// ---- model ----------------------------------------------------------------

type kstate struct {
	kind int // 0 absent, 1 live, 2 deleted
	op   int // op index that wrote the live version
}

type answer struct {
	class string // ok | gone | error
	data  []byte
	err   string
}

func (a answer) equal(b answer) bool {
	return a.class == b.class && bytes.Equal(a.data, b.data) && (a.class != "error" || a.err == b.err)
}

type runner struct {
	r     *lib.Run
	h     history
	kind  storage.NeedleMapKind
	dat   []byte
	idx   []byte
	vif   []byte
	end   []int64          // end[i] = .dat length after op i (end[0] = super block)
	state []map[int]kstate // state[i] = model after op i
	keys  []int
	store *storage.Store
	stop  func()
	dir   string
	aside string
}

func kindOf(s string) storage.NeedleMapKind {
	if s == "leveldb" {
		return storage.NeedleMapLevelDb
	}
	return storage.NeedleMapInMemory
}

// execute runs the history on a fresh real volume and records lengths and model states.
func (x *runner) execute() bool {
	r := x.r
	dir := r.SubDir("hist")
	st, stop := lib.OpenStoreStoppable(dir, x.kind)
	r.Must(st.AddVolume(1, "", x.kind, "000", "", 0, 0, types.HardDriveType), "AddVolume")
	x.end = []int64{superBlockSz}
	cur := map[int]kstate{}
	x.state = []map[int]kstate{copyState(cur)}
	seen := map[int]bool{}
	for i, o := range x.h.Ops {
		opIndex := i + 1
		switch o.Kind {
		case "W":
			_, err := st.WriteVolumeNeedle(1, lib.MakeNeedle(blobOf(opIndex, o), uint64(time.Now().Unix())), false)
			if err != nil {
				r.Inconclusive(fmt.Sprintf("history %d op %d: write failed on the intact volume: %v", x.h.Index, opIndex, err))
				return false
			}
			cur[o.K] = kstate{1, opIndex}
		case "D":
			_, err := st.DeleteVolumeNeedle(1, &needle.Needle{Id: types.NeedleId(o.K), Cookie: types.Cookie(cookieOf(o.K))})
			if err != nil {
				r.Inconclusive(fmt.Sprintf("history %d op %d: delete failed on the intact volume: %v", x.h.Index, opIndex, err))
				return false
			}
			cur[o.K] = kstate{2, 0}
		}
		if !seen[o.K] {
			seen[o.K] = true
			x.keys = append(x.keys, o.K)
		}
		ds, _ := os.Stat(filepath.Join(dir, "1.dat"))
		is, _ := os.Stat(filepath.Join(dir, "1.idx"))
		if ds == nil || is == nil || is.Size() != int64(opIndex)*int64(types.NeedleMapEntrySize) || ds.Size() <= x.end[len(x.end)-1] {
			r.Inconclusive(fmt.Sprintf("history %d op %d: expected exactly one record and one index entry per op", x.h.Index, opIndex))
			return false
		}
		x.end = append(x.end, ds.Size())
		x.state = append(x.state, copyState(cur))
	}
	st.Close()
	stop()
	var err error
	x.dat, err = ioutil.ReadFile(filepath.Join(dir, "1.dat"))
	r.Must(err, "read dat")
	x.idx, err = ioutil.ReadFile(filepath.Join(dir, "1.idx"))
	r.Must(err, "read idx")
	x.vif, _ = ioutil.ReadFile(filepath.Join(dir, "1.vif"))
	_ = os.RemoveAll(dir)
	sort.Ints(x.keys)
	return true
}

func copyState(m map[int]kstate) map[int]kstate {
	c := make(map[int]kstate, len(m))
	for k, v := range m {
		c[k] = v
	}
	return c
}

// dPositions lists the .dat lengths to enumerate.
func (x *runner) dPositions(rng *rand.Rand) []int64 {
	n := len(x.h.Ops)
	set := map[int64]bool{}
	for i := 0; i <= n; i++ {
		set[x.end[i]] = true
	}
	from := 1
	switch x.h.DMode {
	case "tail3":
		from = n - 2
	case "tail2":
		from = n - 1
	}
	if from < 1 {
		from = 1
	}
	for i := from; i <= n; i++ {
		a, b := x.end[i-1], x.end[i]
		if b-a <= bigRecord {
			for d := a + 1; d < b; d++ {
				set[d] = true
			}
			continue
		}
		for d := a + 1; d < a+28 && d < b; d++ { // header, data-size field, first data bytes
			set[d] = true
		}
		for d := b - 40; d < b; d++ { // flags/name/mime tail, crc, timestamp, padding
			if d > a {
				set[d] = true
			}
		}
		for p := (a/4096 + 1) * 4096; p < b; p += 4096 { // page borders
			for d := p - 2; d <= p+2; d++ {
				if d > a && d < b {
					set[d] = true
				}
			}
		}
		for s := 0; s < 24; s++ {
			set[a+1+rng.Int63n(b-a-1)] = true
		}
	}
	var out []int64
	for d := range set {
		out = append(out, d)
	}
	sort.Slice(out, func(i, j int) bool { return out[i] < out[j] })
	return out
}

func (x *runner) openImageStore() {
	x.dir = x.r.SubDir("img")
	x.aside = x.r.SubDir("aside")
	x.store, x.stop = lib.OpenStoreStoppable(x.dir, x.kind)
}

func clearDir(dir string) {
	fis, _ := ioutil.ReadDir(dir)
	for _, fi := range fis {
		_ = os.RemoveAll(filepath.Join(dir, fi.Name()))
	}
}

func moveAll(from, to string) {
	fis, _ := ioutil.ReadDir(from)
	for _, fi := range fis {
		_ = os.Rename(filepath.Join(from, fi.Name()), filepath.Join(to, fi.Name()))
	}
}

func (x *runner) read(key int) answer {
	n := &needle.Needle{Id: types.NeedleId(key), Cookie: 0xdeadbeef}
	_, err := x.store.ReadVolumeNeedle(1, n, nil)
	switch {
	case err == nil:
		return answer{class: "ok", data: append([]byte{}, n.Data...), err: fmt.Sprintf("cookie=%x name=%s", uint32(n.Cookie), n.Name)}
	case err == storage.ErrorNotFound || err == storage.ErrorDeleted:
		return answer{class: "gone", err: err.Error()}
	default:
		return answer{class: "error", err: err.Error()}
	}
}

func tailClass(d int64, endJ int64, endNext int64) string {
	switch {
	case d == endJ:
		return "exact"
	default:
		return "beyond"
	}
}

// image runs the whole oracle on one crash image. mfull = last op fully inside d.
func (x *runner) image(d int64, j int) {
	r := x.r
	n := len(x.h.Ops)
	mfull := 0
	for i := 0; i <= n; i++ {
		if x.end[i] <= d {
			mfull = i
		}
	}
	lastIdx := "none"
	if j > 0 {
		o := x.h.Ops[j-1]
		switch {
		case o.Kind == "D":
			lastIdx = "tombstone"
		case o.Size == 0:
			lastIdx = "empty-write"
		default:
			lastIdx = "write"
		}
	}
	kindOfOp := func(i int) string { // i is 1-based
		o := x.h.Ops[i-1]
		switch {
		case o.Kind == "D":
			return "tombstone"
		case o.Size == 0:
			return "empty-write"
		}
		return "write"
	}
	// order: "write-order" (j <= m, the quantifier's images) or "index-ahead" (j > m: the
	// index kept more entries than the data file has complete records; allowed by the
	// statement's "both files keep any prefix", its own image class in every signature)
	order := "write-order"
	aheadTombstone := "false"
	creditNext := false // record m+1 is in the file up to and including its checksum
	var tail, tailFine string
	if j <= mfull {
		endNext := x.end[n]
		if j < n {
			endNext = x.end[j+1]
		}
		tail = tailClass(d, x.end[j], endNext)
		tailFine = "exact"
		switch {
		case d == x.end[j]:
		case d < endNext:
			tailFine = "torn-next-record"
		case d == x.end[mfull]:
			tailFine = "whole-extra-records"
		default:
			tailFine = "extra-records-and-torn"
		}
	} else {
		order = "index-ahead"
		for i := mfull + 1; i <= j; i++ {
			if kindOfOp(i) == "tombstone" {
				aheadTombstone = "true"
			}
		}
		rel := d - x.end[mfull]
		var sz int64
		if hdr := x.dat[x.end[mfull]:]; len(hdr) >= 16 {
			sz = int64(int32(uint32(hdr[12])<<24 | uint32(hdr[13])<<16 | uint32(hdr[14])<<8 | uint32(hdr[15])))
		}
		switch {
		case rel == 0:
			tailFine = "record-missing"
		case rel < 16:
			tailFine = "cut-in-header"
		case rel < 16+sz+4:
			tailFine = "cut-in-body"
		case rel < 16+sz+4+8:
			tailFine = "cut-in-timestamp"
			creditNext = true
		default:
			tailFine = "cut-in-padding"
			creditNext = true
		}
		tail = tailFine
	}
	loadSig := func(op, class string) lib.Sig {
		sg := lib.Sig{"op": op, "class": class, "order": order, "last_idx": lastIdx, "dat_tail": tail}
		if order == "index-ahead" {
			sg["ahead_tombstone"] = aheadTombstone
			sg["first_ahead"] = kindOfOp(mfull + 1)
		}
		return sg
	}
	detail := func(extra map[string]interface{}) map[string]interface{} {
		extra["history"] = x.h
		extra["d"] = d
		extra["j"] = j
		extra["record_ends"] = x.end
		extra["last_idx_entry"] = lastIdx
		extra["dat_tail"] = tailFine
		extra["order"] = order
		extra["complete_records"] = mfull
		return extra
	}
	r.Case(map[string]interface{}{"history": x.h, "d": d, "j": j})
	r.Count("crash_images", 1)
	if order == "index-ahead" {
		r.Count("index_ahead_images", 1)
		r.Count("ahead.first="+kindOfOp(mfull+1)+",cut="+tailFine, 1)
	} else {
		r.Count("images.last_idx="+lastIdx+",tail="+tailFine, 1)
	}
	if !(d == x.end[n] && j == n) {
		r.Nontrivial(fmt.Sprintf("h%d/%s/d%d/j%d", x.h.Index, x.h.Map, d, j))
	}

	// materialise the image
	clearDir(x.dir)
	r.Must(ioutil.WriteFile(filepath.Join(x.dir, "1.dat"), x.dat[:d], 0644), "write image dat")
	r.Must(ioutil.WriteFile(filepath.Join(x.dir, "1.idx"), x.idx[:j*types.NeedleMapEntrySize], 0644), "write image idx")
	if x.vif != nil {
		r.Must(ioutil.WriteFile(filepath.Join(x.dir, "1.vif"), x.vif, 0644), "write image vif")
	}

	// 1. load
	err := x.store.MountVolume(1)
	r.Eval(1)
	v := x.store.GetVolume(1)
	if err != nil || v == nil {
		r.Violation(loadSig("load", "load-failed"), detail(map[string]interface{}{"error": fmt.Sprint(err), "map": x.h.Map}))
		x.cleanupVolume()
		return
	}
	defer x.cleanupVolume()
	readonly := v.IsReadOnly()
	r.Eval(1)
	if readonly {
		r.Violation(loadSig("load", "readonly-after-crash"), detail(map[string]interface{}{"map": x.h.Map}))
		r.Count("images_readonly", 1)
		if order == "index-ahead" {
			r.Count("index_ahead_images_readonly", 1)
		}
	} else {
		r.Count("images_loaded_writable", 1)
	}

	// 2. reads against the model
	cut := "-"
	touchedAhead := map[int]bool{}
	if order == "index-ahead" {
		cut = tailFine
		for i := mfull + 1; i <= j; i++ {
			touchedAhead[x.h.Ops[i-1].K] = true
		}
	}
	answers := map[int]answer{}
	keys := append(append([]int{}, x.keys...), 9) // 9 is never written
	for _, k := range keys {
		a := x.read(k)
		answers[k] = a
		if readonly && order == "index-ahead" && touchedAhead[k] {
			// the read-only verdict above already says the index was not repaired; what the
			// dangling entries of the in-flight ops answer is its consequence, not judged again
			r.Count("reads_not_judged_on_readonly_index_ahead_volume", 1)
			continue
		}
		x.judgeRead(k, a, j, mfull, creditNext, order, cut, "after-load", detail)
	}
	if readonly {
		return // the write part would only repeat the read-only verdict
	}

	// 3. new writes are accepted and served
	nk := newKeyBase + j
	nb := lib.BlobSpec{Key: uint64(nk), Cookie: cookieOf(nk), Data: []byte(fmt.Sprintf("after-crash-%d-%d-%d", x.h.Index, d, j)), Name: "new", Mime: "t/x"}
	_, werr := x.store.WriteVolumeNeedle(1, lib.MakeNeedle(nb, uint64(time.Now().Unix())), false)
	r.Eval(1)
	if werr != nil {
		r.Violation(lib.Sig{"op": "write-after-crash", "class": "rejected", "target": "new-key", "order": order, "last_idx": lastIdx, "dat_tail": tail},
			detail(map[string]interface{}{"error": werr.Error()}))
	} else {
		answers[nk] = answer{class: "ok", data: nb.Data}
		r.Count("writes_after_crash_ok", 1)
	}
	// overwrite of a key that currently reads fine (same cookie), if there is one
	ow := 0
	for _, k := range x.keys {
		if answers[k].class == "ok" && len(answers[k].data) > 0 {
			ow = k
		}
	}
	if ow != 0 {
		ob := lib.BlobSpec{Key: uint64(ow), Cookie: cookieOf(ow), Data: []byte(fmt.Sprintf("overwrite-after-crash-%d-%d-%d", x.h.Index, d, j)), Name: "ow", Mime: "t/x"}
		_, oerr := x.store.WriteVolumeNeedle(1, lib.MakeNeedle(ob, uint64(time.Now().Unix())), false)
		r.Eval(1)
		if oerr != nil {
			r.Violation(lib.Sig{"op": "write-after-crash", "class": "rejected", "target": "overwrite-live-key", "order": order, "last_idx": lastIdx, "dat_tail": tail},
				detail(map[string]interface{}{"error": oerr.Error(), "key": ow}))
		} else {
			answers[ow] = answer{class: "ok", data: ob.Data}
			r.Count("overwrites_after_crash_ok", 1)
		}
	}
	allKeys := keys
	if werr == nil {
		allKeys = append(allKeys, nk)
	}
	check := func(phase string) {
		for _, k := range allKeys {
			a := x.read(k)
			r.Eval(1)
			want := answers[k]
			if want.class == "error" {
				answers[k] = a // reported when it was first seen; follow the real state
				continue
			}
			if a.class != want.class || !bytes.Equal(a.data, want.data) {
				in := "nonempty"
				if want.class == "ok" && len(want.data) == 0 {
					in = "empty-payload"
				}
				cls := "answer-changed"
				if k == nk || k == ow {
					cls = "new-write-not-served"
				}
				r.Violation(lib.Sig{"op": "read", "class": cls, "phase": phase, "input": in, "order": order},
					detail(map[string]interface{}{"key": k, "expected_class": want.class, "expected_data": short(want.data),
						"got_class": a.class, "got_data": short(a.data), "got_err": a.err}))
				answers[k] = a
			}
		}
	}
	check("after-write")
	if x.h.Reload == "half" && d != x.end[mfull] && (d+int64(j))%2 != 0 {
		r.Count("images_completed_without_second_reload", 1)
		return
	}

	// 4. reload once more: same answers, still writable
	v1 := x.store.GetVolume(1)
	r.Must(x.store.UnmountVolume(1), "UnmountVolume")
	// end the first instance's worker goroutine without touching the files
	moveAll(x.dir, x.aside)
	_ = v1.Destroy()
	moveAll(x.aside, x.dir)
	err = x.store.MountVolume(1)
	r.Eval(1)
	v = x.store.GetVolume(1)
	if err != nil || v == nil {
		r.Violation(loadSig("reload", "load-failed"), detail(map[string]interface{}{"error": fmt.Sprint(err)}))
		return
	}
	if v.IsReadOnly() {
		r.Violation(loadSig("reload", "readonly-after-reload"), detail(map[string]interface{}{}))
	}
	check("after-reload")
	r.Count("images_completed", 1)
	if order == "index-ahead" {
		r.Count("index_ahead_images_completed", 1)
	}
}

func short(b []byte) string {
	if len(b) > 24 {
		return fmt.Sprintf("%x...(%d bytes)", b[:24], len(b))
	}
	return fmt.Sprintf("%x", b)
}

// judgeRead decides one read after loading image (d, j).
func (x *runner) judgeRead(k int, a answer, j, mfull int, creditNext bool, order, cut, phase string, detail func(map[string]interface{}) map[string]interface{}) {
	r := x.r
	r.Eval(1)
	// "fully reached both files" = ops 1..min(j, m). Allowed states: that one, or any state a
	// later op up to the last record completely in the data file gave this key; for an
	// index-ahead image additionally the state of op m+1 when its record is in the file up to
	// and including its checksum (only padding/timestamp bytes are missing)
	b := j
	if b > mfull {
		b = mfull
	}
	allowed := []kstate{x.state[b][k]}
	for i := b + 1; i <= mfull; i++ {
		if x.h.Ops[i-1].K == k {
			allowed = append(allowed, x.state[i][k])
		}
	}
	if j > mfull && creditNext && x.h.Ops[mfull].K == k {
		allowed = append(allowed, x.state[mfull+1][k])
	}
	// in-flight ops whose index entry survived and whose effect needs no bytes from the data
	// file (a tombstone, a zero-length write): either outcome is accepted
	for i := mfull + 1; i <= j; i++ {
		if o := x.h.Ops[i-1]; o.K == k && (o.Kind == "D" || o.Size == 0) {
			allowed = append(allowed, x.state[i][k])
		}
	}
	base := x.state[b][k]
	input := "nonempty"
	if base.kind == 1 && x.h.Ops[base.op-1].Size == 0 {
		input = "empty-payload"
	}
	viol := func(class string, extra map[string]interface{}) {
		extra["key"] = k
		extra["got_class"] = a.class
		extra["got_data"] = short(a.data)
		extra["got_err"] = a.err
		extra["model_state_after_j"] = fmt.Sprintf("%+v", base)
		r.Violation(lib.Sig{"op": "read", "class": class, "phase": phase, "input": input, "ambiguous": fmt.Sprint(len(allowed) > 1), "order": order, "cut": cut}, detail(extra))
	}
	switch a.class {
	case "error":
		viol("read-error", map[string]interface{}{})
	case "gone":
		for _, s := range allowed {
			if s.kind != 1 {
				r.Count("reads_gone_as_expected", 1)
				return
			}
		}
		viol("acked-blob-unreadable", map[string]interface{}{})
	case "ok":
		for _, s := range allowed {
			if s.kind == 1 && bytes.Equal(a.data, payloadOf(s.op, x.h.Ops[s.op-1])) {
				want := fmt.Sprintf("cookie=%x name=k%d-o%d", cookieOf(k), k, s.op)
				if len(a.data) > 0 && a.err != want {
					viol("metadata-differs", map[string]interface{}{"expected_meta": want})
					return
				}
				r.Count("reads_exact_content", 1)
				return
			}
		}
		// which kind of wrong data is it?
		for i, o := range x.h.Ops {
			if o.Kind == "W" && bytes.Equal(a.data, payloadOf(i+1, o)) {
				if o.K == k {
					if base.kind == 2 {
						viol("deleted-blob-served", map[string]interface{}{"served_version_op": i + 1})
					} else {
						viol("stale-or-unacked-version", map[string]interface{}{"served_version_op": i + 1})
					}
				} else {
					viol("foreign-data", map[string]interface{}{"payload_of_key": o.K, "op": i + 1})
				}
				return
			}
		}
		viol("corrupt-data", map[string]interface{}{})
	}
}

func (x *runner) cleanupVolume() {
	if x.store.GetVolume(1) != nil {
		_ = x.store.DeleteVolume(1) // Destroy: ends the worker goroutine, removes the files
	}
	clearDir(x.dir)
}

var truncN int

// quietLog keeps the child's log (stdout+stderr share one file) from growing without
// bound: as long as nothing was reported the file is reset now and then.
func quietLog(r *lib.Run) {
	truncN++
	if truncN%200 != 0 || r.Violations() > 0 || os.Getenv("VERIF_CHILD_OUT") == "" {
		return
	}
	if err := syscall.Ftruncate(2, 0); err == nil {
		_, _ = syscall.Seek(2, 0, 0)
	}
}

func runHistory(r *lib.Run, h history, only *[2]int64) {
	x := &runner{r: r, h: h, kind: kindOf(h.Map)}
	if !x.execute() {
		return
	}
	x.openImageStore()
	defer func() { x.store.Close(); x.stop() }()
	if g, err := strconv.Atoi(os.Getenv("VERIF_C03_GOGC")); err == nil {
		debug.SetGCPercent(g)
	}
	n := len(h.Ops)
	if only != nil {
		x.image(only[0], int(only[1]))
		return
	}
	rng := rand.New(rand.NewSource(int64(h.Index)*104729 + r.Seed))
	ds := x.dPositions(rng)
	r.Count("histories", 1)
	r.Count("d_positions", int64(len(ds)))
	for _, d := range ds {
		mfull := 0
		for i := 0; i <= n; i++ {
			if x.end[i] <= d {
				mfull = i
			}
		}
		boundary := d == x.end[mfull]
		for j := 0; j <= mfull; j++ {
			if x.h.JMode == "near" && !boundary && !(j >= mfull-2 || j == 0) {
				continue
			}
			x.image(d, j)
			quietLog(r)
			if r.Violations() > 40 {
				return
			}
		}
		// index ahead of the data file (own image class "order=index-ahead"): one entry more
		// than complete records at record boundaries, at every 9th byte of the next record and
		// at each of its last 20 bytes (timestamp + padding); two entries more at boundaries
		// and every 27th byte
		if mfull < n && (boundary || (d-x.end[mfull])%9 == 1 || x.end[mfull+1]-d <= 20) {
			x.image(d, mfull+1)
			quietLog(r)
			if mfull+2 <= n && (boundary || (d-x.end[mfull])%27 == 1) {
				x.image(d, mfull+2)
			}
			if r.Violations() > 40 {
				return
			}
		}
	}
	last := h.Ops[n-1]
	r.Sample(map[string]interface{}{"history": h, "record_ends": x.end, "d_positions": len(ds),
		"last_op": last, "first_image": []int64{ds[0], 0}, "last_image": []int64{ds[len(ds)-1], int64(n)}})
}

func main() {
	r := lib.Start("C03", "fault_enumeration")
	if pf := os.Getenv("VERIF_PPROF"); pf != "" {
		f, _ := os.Create(pf)
		_ = pprof.StartCPUProfile(f)
		defer pprof.StopCPUProfile()
	}
	r.SetRule("a case is a crash image (history, d, j): the .dat of a generated history (writes/overwrites/deletes over 4 keys, records of 40 B to 13 KiB, some zero-length payloads, tails ending in a tombstone / a tombstone followed by a write / a multi-page record) cut to d bytes and its .idx cut to j entries, j <= m = number of records completely inside d. d ranges over every record boundary and bytewise over the last 2 records (quick: 6 histories of 4-10 ops), the last 3 records (thorough: 10 histories of 4-12 ops) or all records (thorough: 2 histories of 4-8 ops; 2 more leveldb-map histories like the quick ones); records longer than 600 B are cut at every byte of their first 28 and last 40 bytes, 2 bytes around every 4 KiB page border and 24 seeded positions. j ranges over all 0..m (thorough memory-map histories; every boundary d in all tiers) or over {m, m-1, m-2, 0} for torn d (quick, leveldb histories). Index-ahead images (own class, allowed by the statement's 'both files keep any prefix'): j = m+1 at every record boundary, every 9th byte of the next record and each of its last 20 bytes, j = m+2 at boundaries and every 27th byte; they are judged against the state after op m (op m+1's state is also accepted when its record is present up to its checksum). Each image is loaded by the real code, every key read and judged against the model states reachable between op j and the last complete record, a new key and an overwrite are written and read, the volume is reloaded and read again (in 'half' mode the second reload is done for boundary images and torn images with d+j even). distinct = distinct (history, d, j); non-trivial = every image except the clean one (d = full file, j = all entries)")
	r.Assume("crash images are prefix truncations only (the quantifier's model): no sector reordering inside a record; .vif and super block intact; an .ldb directory is absent in the image (rebuilt from the .idx)")
	r.Assume("images are loaded with Store.MountVolume on a long-lived Store (same NewVolume/load path as a fresh Store, without leaking a DiskLocation goroutine per image)")
	r.Assume("a read answering not-found for a deleted key (or deleted for an absent one) is accepted: both mean 'no data'")

	if r.Replay != "" {
		var d struct {
			History history `json:"history"`
			D       int64   `json:"d"`
			J       int64   `json:"j"`
		}
		r.Must(r.LoadReplay(&d), "load replay")
		runHistory(r, d.History, &[2]int64{d.D, d.J})
		r.Finish(0)
	}

	hs := genHistories(r)

	// child mode: "hist <index>"
	if len(r.Args) >= 2 && r.Args[0] == "hist" {
		i, err := strconv.Atoi(r.Args[1])
		if err != nil || i < 0 || i >= len(hs) {
			r.Must(fmt.Errorf("bad history index %q", r.Args[1]), "child arguments")
		}
		runHistory(r, hs[i], nil)
		pprof.StopCPUProfile()
		r.Finish(0)
	}

	self := os.Getenv("VERIF_SELF")
	if self == "" {
		self, _ = os.Executable()
	}
	par := 8
	if p, err := strconv.Atoi(os.Getenv("VERIF_PAR")); err == nil && p > 0 {
		par = p
	}
	// a fixed set of worker labels: the counters of all children run by one worker
	// accumulate under that label (keeps the evidence small)
	var wg sync.WaitGroup
	todo := make(chan int, len(hs))
	for i := range hs {
		todo <- i
	}
	close(todo)
	for w := 0; w < par; w++ {
		wg.Add(1)
		go func(w int) {
			defer wg.Done()
			label := fmt.Sprintf("w%d", w)
			for i := range todo {
				if r.Violations() > 60 {
					continue
				}
				r.RunChild(label, self, nil, "hist", strconv.Itoa(i))
				if r.Violations() == 0 {
					_ = os.RemoveAll(filepath.Join(r.Scratch(), "child-"+label))
				}
			}
		}(w)
	}
	wg.Wait()

	// aggregate the per-worker counters
	agg := map[string]int64{}
	for _, name := range []string{"crash_images", "histories", "d_positions", "images_loaded_writable", "images_readonly",
		"images_completed", "images_completed_without_second_reload", "index_ahead_images", "index_ahead_images_readonly",
		"index_ahead_images_completed", "writes_after_crash_ok", "overwrites_after_crash_ok", "reads_exact_content", "reads_gone_as_expected"} {
		for w := 0; w < par; w++ {
			agg[name] += r.Counter(fmt.Sprintf("w%d.%s", w, name))
		}
	}
	classes := map[string]int64{}
	lasts := []string{"none", "write", "tombstone", "empty-write"}
	tails := []string{"exact", "torn-next-record", "whole-extra-records", "extra-records-and-torn"}
	for _, l := range lasts {
		for _, t := range tails {
			for w := 0; w < par; w++ {
				if c := r.Counter(fmt.Sprintf("w%d.images.last_idx=%s,tail=%s", w, l, t)); c > 0 {
					classes["last_idx="+l+",tail="+t] += c
				}
			}
		}
	}
	ahead := map[string]int64{}
	for _, first := range []string{"write", "tombstone", "empty-write"} {
		for _, cut := range []string{"record-missing", "cut-in-header", "cut-in-body", "cut-in-timestamp", "cut-in-padding"} {
			for w := 0; w < par; w++ {
				if c := r.Counter(fmt.Sprintf("w%d.ahead.first=%s,cut=%s", w, first, cut)); c > 0 {
					ahead["first_ahead="+first+","+cut] += c
				}
			}
		}
	}
	r.Note("index_ahead_images_by_class", ahead)
	r.Note("totals", agg)
	r.Note("images_by_class", classes)
	r.Note("distinct_crash_images", agg["crash_images"])
	r.Note("histories_generated", len(hs))
	if agg["crash_images"] == 0 || agg["images_completed"]+agg["images_completed_without_second_reload"] == 0 || agg["images_completed"] == 0 || agg["reads_exact_content"] == 0 || agg["writes_after_crash_ok"] == 0 {
		r.Inconclusive("no crash image went through the whole oracle")
	}
	if int(agg["histories"]) != len(hs) && r.Violations() == 0 {
		r.Inconclusive(fmt.Sprintf("only %d of %d histories were enumerated", agg["histories"], len(hs)))
	}
	r.Finish(1000)
}
