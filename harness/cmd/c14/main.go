// C14 — Vacuum rounds keep replicas consistent and writable.
//
// The real Topology.Vacuum runs against harness gRPC VolumeServer endpoints. Each
// endpoint stands for one replica: a real storage.Store behind
// VacuumVolumeCheck/Compact/Commit/Cleanup, wrapped by a per-phase outcome script
// (ok, error before acting, error after acting = reply lost, garbage below the
// threshold, hang until the master's timer fires). All reachable combinations of
// per-replica outcomes for 1-3 replicas are enumerated (fault enumeration).
// Oracle, per round: (1) a commit RPC reaches only replicas whose compact RPC of
// this round was answered with success; (2) afterwards every replica holds the
// same live content (every key read from every replica's Store); (3) the
// writable set of the layout equals that of a control Topology that received the
// same registrations and no vacuum.
// Overlap scenarios (round 4): while one round is held inside a phase (the replicas
// have acted, their replies are delayed), 1-3 further Topology.Vacuum calls arrive
// one after the other (the periodic timer, /vol/vacuum, the VacuumVolume gRPC); the
// held round is then let go. Same oracles, plus: a commit RPC must find the
// compaction result (.cpd) of its replica still in place.
package main

import (
	"crypto/sha1"
	"encoding/hex"
	"fmt"
	"os"
	"path/filepath"
	"sort"
	"strings"
	"sync"
	"sync/atomic"
	"time"

	"google.golang.org/grpc"

	"github.com/chrislusf/seaweedfs/weed/pb/master_pb"
	"github.com/chrislusf/seaweedfs/weed/pb/volume_server_pb"
	"github.com/chrislusf/seaweedfs/weed/sequence"
	"github.com/chrislusf/seaweedfs/weed/storage"
	"github.com/chrislusf/seaweedfs/weed/storage/needle"
	"github.com/chrislusf/seaweedfs/weed/storage/super_block"
	"github.com/chrislusf/seaweedfs/weed/storage/types"
	"github.com/chrislusf/seaweedfs/weed/topology"

	"verifharness/lib"
)

const (
	threshold     = 0.3
	sizeLimit     = 64 * 1024 * 1024 // check timer 1 min, compact timer 3 min
	vidMain       = 1                // the volume with garbage
	vidBystander  = 2                // same servers, no garbage: must not be touched
	cookie        = 0x1234abcd
	initialKeys   = 14
	deletedBefore = 7
)

// outcome names. "-" = phase not reached in this combination.
var checkOutcomes = []string{"ok", "err", "low"}
var compactOutcomes = []string{"ok", "err", "err-after"}
var commitOutcomes = []string{"ok", "err", "err-after"}

type repScript struct {
	Check   string `json:"check"`
	Compact string `json:"compact"`
	Commit  string `json:"commit"`
}

type scenario struct {
	N         int         `json:"replicas"`
	Reps      []repScript `json:"scripts"`
	MidWrites bool        `json:"mid_round_writes"`
	Rounds    int         `json:"rounds"`  // 1, or 2 (second round: every replica answers from its real state)
	Variant   string      `json:"variant"` // "", "oversized", "under-replicated"
	Hang      bool        `json:"has_hang"`
	// overlap scenarios: the phase in which the first Vacuum call is held ("check", "compact",
	// "commit"; "" = none) and the number of further Vacuum calls that arrive meanwhile
	Overlap string `json:"overlap_held_in,omitempty"`
	Extra   int    `json:"overlapping_vacuum_calls,omitempty"`
}

func (s scenario) key() string {
	var p []string
	for _, r := range s.Reps {
		p = append(p, r.Check+"/"+r.Compact+"/"+r.Commit)
	}
	k := fmt.Sprintf("n%d[%s]mw=%v,r=%d,%s", s.N, strings.Join(p, " "), s.MidWrites, s.Rounds, s.Variant)
	if s.Overlap != "" {
		k += fmt.Sprintf(",overlap=%s+%d", s.Overlap, s.Extra)
	}
	return k
}

type rpcRec struct {
	Round   int    `json:"round"`
	Op      string `json:"op"`
	Vid     uint32 `json:"vid"`
	Outcome string `json:"outcome"`
}

type replica struct {
	idx    int
	stub   *lib.M13VolumeStub
	dir    string
	store  *storage.Store
	script repScript
	mu     sync.Mutex
	log    []rpcRec
	// per round: did this replica answer its compact RPC with success
	compactOK map[int]bool
}

func (rp *replica) add(round int, op string, vid uint32, outcome string) {
	rp.mu.Lock()
	rp.log = append(rp.log, rpcRec{round, op, vid, outcome})
	rp.mu.Unlock()
}

func (rp *replica) logCopy() []rpcRec {
	rp.mu.Lock()
	defer rp.mu.Unlock()
	return append([]rpcRec{}, rp.log...)
}

type world struct {
	r       *lib.Run
	sc      scenario
	reps    []*replica
	round   int32 // atomic: read by the RPC handlers
	release chan struct{}
	midOnce map[int]*sync.Once
	model   map[uint64][]byte // live content the replicas should all hold (nil = deleted)
	nextKey uint64
	mu      sync.Mutex
	// writable-set difference (per volume) left by the previous round
	prevDiff map[uint32]string
	og       *overlapGate
}

// overlapGate holds the first Vacuum call of an overlap scenario inside one phase: the
// first RPC of that phase on every replica (commit: the first commit RPC of the scenario,
// the master commits one replica after the other) acts, then waits for open before it
// replies. RPCs of later Vacuum calls are never held.
type overlapGate struct {
	op      string
	mu      sync.Mutex
	seen    map[int]bool
	arrived chan struct{}
	open    chan struct{}
}

func (w *world) hold(rp *replica, op string, vid uint32) {
	g := w.og
	if g == nil || g.op != op || vid != vidMain {
		return
	}
	g.mu.Lock()
	if g.seen[rp.idx] || (op == "commit" && len(g.seen) > 0) {
		g.mu.Unlock()
		return
	}
	g.seen[rp.idx] = true
	g.mu.Unlock()
	w.r.Count("overlap.rpcs_held."+op, 1)
	g.arrived <- struct{}{}
	select {
	case <-g.open:
	case <-w.release:
	}
}

func (w *world) rpcCount() int {
	n := 0
	for _, rp := range w.reps {
		rp.mu.Lock()
		n += len(rp.log)
		rp.mu.Unlock()
	}
	return n
}

func payload(key uint64, gen int) []byte {
	return []byte(fmt.Sprintf("blob-%d-gen%d-%s", key, gen, strings.Repeat("x", 200+int(key%7)*30)))
}

func (w *world) writeAll(vid needle.VolumeId, key uint64, data []byte) {
	for _, rp := range w.reps {
		n := lib.MakeNeedle(lib.BlobSpec{Key: key, Cookie: cookie, Data: data, Name: "f", Mime: "text/plain"}, uint64(time.Now().Unix()))
		if _, err := rp.store.WriteVolumeNeedle(vid, n, false); err != nil {
			w.r.Must(err, fmt.Sprintf("replicated write of key %d to replica %d", key, rp.idx))
		}
	}
	if vid == vidMain {
		w.model[key] = data
	}
}

func (w *world) deleteAll(vid needle.VolumeId, key uint64) {
	for _, rp := range w.reps {
		n := &needle.Needle{Id: types.NeedleId(key), Cookie: cookie}
		if _, err := rp.store.DeleteVolumeNeedle(vid, n); err != nil {
			w.r.Must(err, fmt.Sprintf("replicated delete of key %d on replica %d", key, rp.idx))
		}
	}
	if vid == vidMain {
		w.model[key] = nil
	}
}

// midWrites is what clients holding earlier assignments do while the round is
// between its compact and commit/cleanup phases: replicated writes, an overwrite
// and deletes, applied to every replica alike.
func (w *world) midWrites(round int) {
	w.mu.Lock()
	defer w.mu.Unlock()
	base := w.nextKey
	w.nextKey += 4
	for k := base; k < base+4; k++ {
		w.writeAll(vidMain, k, payload(k, round))
	}
	// overwrite one live key, delete two live keys
	live := w.liveKeys()
	if len(live) > 3 {
		w.writeAll(vidMain, live[0], payload(live[0], 10+round))
		w.deleteAll(vidMain, live[1])
		w.deleteAll(vidMain, live[len(live)-1])
	}
	w.r.Count("mid_round_write_batches", 1)
}

func (w *world) liveKeys() []uint64 {
	var out []uint64
	for k, d := range w.model {
		if d != nil {
			out = append(out, k)
		}
	}
	sort.Slice(out, func(i, j int) bool { return out[i] < out[j] })
	return out
}

func (w *world) curRound() int { return int(atomic.LoadInt32(&w.round)) }

func (w *world) script(rp *replica) repScript {
	if w.curRound() >= 2 {
		return repScript{"ok", "ok", "ok"}
	}
	return rp.script
}

func (w *world) install(rp *replica) {
	rp.stub.Set(func(s *lib.M13VolumeStub) {
		s.OnCheck = func(req *volume_server_pb.VacuumVolumeCheckRequest) (float64, error) {
			round := w.curRound()
			oc := w.script(rp).Check
			if req.VolumeId != vidMain {
				oc = "ok"
			}
			switch oc {
			case "err":
				rp.add(round, "check", req.VolumeId, "err")
				return 0, fmt.Errorf("injected check failure")
			case "low":
				rp.add(round, "check", req.VolumeId, "low")
				return 0.01, nil
			case "hang":
				rp.add(round, "check", req.VolumeId, "hang")
				<-w.release
				return 0, fmt.Errorf("released after hang")
			}
			ratio, err := rp.store.CheckCompactVolume(needle.VolumeId(req.VolumeId))
			rp.add(round, "check", req.VolumeId, fmt.Sprintf("ok(%.2f)", ratio))
			w.hold(rp, "check", req.VolumeId)
			return ratio, err
		}
		s.OnCompact = func(req *volume_server_pb.VacuumVolumeCompactRequest) error {
			round := w.curRound()
			oc := w.script(rp).Compact
			switch oc {
			case "err":
				rp.add(round, "compact", req.VolumeId, "err")
				return fmt.Errorf("injected compact failure")
			case "hang":
				rp.add(round, "compact", req.VolumeId, "hang")
				<-w.release
				return fmt.Errorf("released after hang")
			}
			err := rp.store.CompactVolume(needle.VolumeId(req.VolumeId), req.Preallocate, 0)
			if err == nil && oc == "err-after" {
				rp.add(round, "compact", req.VolumeId, "err-after")
				return fmt.Errorf("injected: compaction done, reply lost")
			}
			if err != nil {
				rp.add(round, "compact", req.VolumeId, "real-error:"+err.Error())
				return err
			}
			rp.mu.Lock()
			rp.compactOK[round] = true
			rp.mu.Unlock()
			rp.add(round, "compact", req.VolumeId, "ok")
			w.hold(rp, "compact", req.VolumeId)
			return nil
		}
		s.OnCommit = func(req *volume_server_pb.VacuumVolumeCommitRequest) (bool, error) {
			round := w.curRound()
			if w.sc.MidWrites {
				w.midOnce[round].Do(func() { w.midWrites(round) })
			}
			oc := w.script(rp).Commit
			if oc == "err" {
				rp.add(round, "commit", req.VolumeId, "err")
				return false, fmt.Errorf("injected commit failure")
			}
			if w.og != nil {
				// overlap scenarios: the commit must find this replica's compaction result in place
				// (it is gone when another round's commit consumed it or a cleanup removed it)
				w.r.Eval(1)
				w.r.Count("overlap.commit_rpcs_checked_for_compaction_result", 1)
				if _, serr := os.Stat(filepath.Join(rp.dir, fmt.Sprintf("%d.cpd", req.VolumeId))); serr != nil {
					rp.add(round, "commit", req.VolumeId, "no-compaction-result")
					w.r.Violation(lib.Sig{"class": "commit-without-compaction-result", "overlap_held_in": w.sc.Overlap, "replicas": fmt.Sprint(w.sc.N)},
						map[string]interface{}{"msg": fmt.Sprintf("commit RPC reached replica %d which holds no compaction result (.cpd): %v", rp.idx, serr), "scenario": w.sc, "rpc_log": rp.logCopy()})
					// not handed to the Store: CommitCompact without a .cpd wrecks the volume
					return false, fmt.Errorf("volume %d has no compaction result to commit", req.VolumeId)
				}
			}
			ro, err := rp.store.CommitCompactVolume(needle.VolumeId(req.VolumeId))
			if err == nil {
				w.hold(rp, "commit", req.VolumeId)
			}
			if err == nil && oc == "err-after" {
				rp.add(round, "commit", req.VolumeId, "err-after")
				return false, fmt.Errorf("injected: commit done, reply lost")
			}
			if err != nil {
				rp.add(round, "commit", req.VolumeId, "real-error:"+err.Error())
				return ro, err
			}
			rp.add(round, "commit", req.VolumeId, "ok")
			return ro, nil
		}
		s.OnCleanup = func(req *volume_server_pb.VacuumVolumeCleanupRequest) error {
			round := w.curRound()
			if w.sc.MidWrites {
				w.midOnce[round].Do(func() { w.midWrites(round) })
			}
			err := rp.store.CommitCleanupVolume(needle.VolumeId(req.VolumeId))
			if err != nil {
				rp.add(round, "cleanup", req.VolumeId, "real-error:"+err.Error())
				return err
			}
			rp.add(round, "cleanup", req.VolumeId, "ok")
			return nil
		}
	})
}

func writables(t *topology.Topology, rp *super_block.ReplicaPlacement) []uint32 {
	vl := t.GetVolumeLayout("", rp, needle.EMPTY_TTL, types.HardDriveType)
	var out []uint32
	if ws, ok := vl.ToMap()["writables"].([]needle.VolumeId); ok {
		for _, v := range ws {
			out = append(out, uint32(v))
		}
	}
	sort.Slice(out, func(i, j int) bool { return out[i] < out[j] })
	return out
}

func has(l []uint32, v uint32) bool {
	for _, x := range l {
		if x == v {
			return true
		}
	}
	return false
}

// runScenario executes one combination. stubs: n endpoints that stay up.
func runScenario(r *lib.Run, sc scenario, stubs []*lib.M13VolumeStub) {
	tStart := time.Now()
	lap := func(name string) {
		r.Count("wall_us."+name, time.Since(tStart).Microseconds())
		tStart = time.Now()
	}
	w := &world{r: r, sc: sc, release: make(chan struct{}), midOnce: map[int]*sync.Once{1: new(sync.Once), 2: new(sync.Once)},
		model: make(map[uint64][]byte), nextKey: 1000, round: 1}
	if sc.Overlap != "" {
		w.og = &overlapGate{op: sc.Overlap, seen: make(map[int]bool), arrived: make(chan struct{}, 8), open: make(chan struct{})}
	}
	placement := []string{"000", "001", "002"}[sc.N-1]
	if sc.Variant == "under-replicated" {
		placement = []string{"001", "002", "002"}[sc.N-1]
	}
	rpl, _ := super_block.NewReplicaPlacementFromString(placement)
	for i := 0; i < sc.N; i++ {
		rp := &replica{idx: i, stub: stubs[i], dir: r.SubDir(fmt.Sprintf("rep%d", i)), script: sc.Reps[i], compactOK: make(map[int]bool)}
		rp.store = lib.OpenStore(rp.dir, storage.NeedleMapInMemory)
		for _, vid := range []needle.VolumeId{vidMain, vidBystander} {
			r.Must(rp.store.AddVolume(vid, "", storage.NeedleMapInMemory, placement, "", 0, 0, types.HardDriveType), "AddVolume")
		}
		w.reps = append(w.reps, rp)
	}
	defer func() {
		close(w.release)
		for _, rp := range w.reps {
			rp.stub.Set(func(s *lib.M13VolumeStub) { s.OnCheck, s.OnCompact, s.OnCommit, s.OnCleanup = nil, nil, nil, nil })
			if !sc.Hang {
				rp.store.Close()
				_ = os.RemoveAll(rp.dir)
			}
		}
	}()
	lap("open_stores")
	// initial replicated content: 24 blobs, 12 of them deleted again (garbage ~50%)
	for k := uint64(1); k <= initialKeys; k++ {
		w.writeAll(vidMain, k, payload(k, 0))
		if k <= 2 {
			w.writeAll(vidBystander, k, payload(k, 0))
		}
	}
	for k := uint64(1); k <= deletedBefore; k++ {
		w.deleteAll(vidMain, 2*k-1)
	}
	for _, rp := range w.reps {
		ratio, err := rp.store.CheckCompactVolume(vidMain)
		if err != nil || ratio < threshold {
			r.Must(fmt.Errorf("ratio %.2f err %v", ratio, err), "harness: initial garbage ratio must exceed the threshold")
		}
		w.install(rp)
	}
	lap("initial_content")
	// the vacuumed topology and the no-vacuum control receive the same registrations
	group := lib.M13NewRaftGroup()
	t := lib.M13NewTopology(group, "t", sequence.NewMemorySequencer(), sizeLimit)
	ctl := lib.M13NewTopology(lib.M13NewRaftGroup(), "ctl", sequence.NewMemorySequencer(), sizeLimit)
	register := func() {
		for _, topo := range []*topology.Topology{t, ctl} {
			rack := topo.GetOrCreateDataCenter("dc1").GetOrCreateRack("r1")
			for _, rp := range w.reps {
				dn := rack.GetOrCreateDataNode("127.0.0.1", rp.stub.Port, rp.stub.Url(), map[string]uint32{"": 10})
				var infos []*master_pb.VolumeInformationMessage
				for _, vid := range []uint32{vidMain, vidBystander} {
					size := uint64(20000)
					if sc.Variant == "oversized" && vid == vidMain {
						size = sizeLimit + 1
					}
					infos = append(infos, &master_pb.VolumeInformationMessage{Id: vid, Size: size, FileCount: initialKeys, DeleteCount: deletedBefore,
						ReplicaPlacement: uint32(rpl.Byte()), Version: uint32(needle.CurrentVersion)})
				}
				topo.SyncDataNodeRegistration(infos, dn)
			}
		}
	}
	register()
	before := writables(t, rpl)
	wantBefore := sc.Variant == ""
	if has(before, vidMain) != wantBefore || fmt.Sprint(before) != fmt.Sprint(writables(ctl, rpl)) {
		r.Must(fmt.Errorf("writables %v control %v variant %q", before, writables(ctl, rpl), sc.Variant), "harness: unexpected initial writable set")
	}

	for round := 1; round <= sc.Rounds; round++ {
		atomic.StoreInt32(&w.round, int32(round))
		lap("register")
		if sc.Overlap != "" {
			if !w.runOverlap(t, rpl) {
				return // inconclusive (recorded): nothing is judged
			}
		} else {
			t.Vacuum(grpc.WithInsecure(), threshold, 0)
		}
		lap("vacuum")
		if sc.MidWrites {
			// no commit/cleanup was issued in this round: the writes arrive after it
			w.midOnce[round].Do(func() { w.midWrites(round) })
		}
		w.judge(t, ctl, rpl, round)
		lap("judge")
	}
	// evidence
	shape := ""
	for _, rp := range w.reps {
		for _, e := range rp.log {
			if e.Vid == vidMain {
				shape += fmt.Sprintf("%d:%s/%s ", rp.idx, e.Op, strings.SplitN(e.Outcome, "(", 2)[0])
			}
		}
		shape += "| "
	}
	r.Nontrivial("shape:" + shape)
	r.Count("scenarios", 1)
	r.Nontrivial(sc.key())
}

// runOverlap: the first Vacuum call is held inside sc.Overlap (every replica has acted, the
// replies wait); sc.Extra further Vacuum calls are made one after the other, each awaited;
// then the held round is let go and awaited. Waiting is bounded only to end a stuck run as
// inconclusive (false); no verdict depends on time.
func (w *world) runOverlap(t *topology.Topology, rpl *super_block.ReplicaPlacement) bool {
	r, sc, g := w.r, w.sc, w.og
	const patience = 5 * time.Minute // above the master's own 3-minute compact timer
	call := func() chan struct{} {
		done := make(chan struct{})
		go func() {
			defer close(done)
			t.Vacuum(grpc.WithInsecure(), threshold, 0)
		}()
		return done
	}
	stuck := func(what string) bool {
		r.Inconclusive("overlap scenario " + sc.key() + ": " + what)
		close(g.open)
		return false
	}
	first := call()
	need := sc.N
	if sc.Overlap == "commit" {
		need = 1
	}
	for i := 0; i < need; i++ {
		select {
		case <-g.arrived:
		case <-first:
			return stuck("the first round ended without reaching the phase it was to be held in")
		case <-time.After(patience):
			return stuck("the first round did not reach the phase it was to be held in")
		}
	}
	r.Count("overlap.rounds_held_in."+sc.Overlap, 1)
	for i := 0; i < sc.Extra; i++ {
		before := w.rpcCount()
		select {
		case <-call():
		case <-time.After(patience):
			return stuck(fmt.Sprintf("overlapping Vacuum call %d did not return", i+2))
		}
		r.Count("overlap.vacuum_calls_during_held_round", 1)
		// observed, not judged (the statement speaks about RPCs per replica and the state after the round)
		r.Count("overlap.rpcs_issued_by_overlapping_calls(not judged)", int64(w.rpcCount()-before))
		if sc.Overlap == "compact" && has(writables(t, rpl), vidMain) {
			r.Count("overlap.writable_while_held_in_compact(not judged)", 1)
		}
	}
	close(g.open)
	select {
	case <-first:
	case <-time.After(patience):
		r.Inconclusive("overlap scenario " + sc.key() + ": the held round did not finish after it was let go")
		return false
	}
	r.Count("overlap.scenarios", 1)
	return true
}

// judge applies the three oracles after a round.
func (w *world) judge(t, ctl *topology.Topology, rpl *super_block.ReplicaPlacement, round int) {
	r, sc := w.r, w.sc
	logs := make(map[string][]rpcRec)
	detail := func(msg string) map[string]interface{} {
		for _, rp := range w.reps {
			rp.mu.Lock()
			logs[fmt.Sprintf("replica%d", rp.idx)] = append([]rpcRec{}, rp.log...)
			rp.mu.Unlock()
		}
		return map[string]interface{}{"msg": msg, "scenario": sc, "round": round, "rpc_logs": logs}
	}
	nCommit, nCommitErr, nCleanup, nCompact, nCompactOK := 0, 0, 0, 0, 0
	for _, rp := range w.reps {
		rp.mu.Lock()
		log := append([]rpcRec{}, rp.log...)
		ok := rp.compactOK[round]
		rp.mu.Unlock()
		for _, e := range log {
			if e.Round != round {
				continue
			}
			if e.Vid != vidMain {
				// the bystander volume has no garbage: only checks may reach it
				r.Eval(1)
				if e.Op != "check" {
					r.Violation(lib.Sig{"class": "rpc-to-volume-without-garbage", "op": e.Op}, detail("vacuum phase beyond check issued for a volume below the threshold on every replica"))
				}
				continue
			}
			switch e.Op {
			case "compact":
				nCompact++
				if e.Outcome == "ok" {
					nCompactOK++
				}
			case "cleanup":
				nCleanup++
			case "commit":
				nCommit++
				if e.Outcome != "ok" {
					nCommitErr++
				}
				// (1) commit only where this round's compact was answered with success
				r.Eval(1)
				if !ok {
					r.Violation(lib.Sig{"class": "commit-without-successful-compact", "compact": w.script(rp).Compact, "check": w.script(rp).Check},
						detail(fmt.Sprintf("commit RPC reached replica %d whose compact did not succeed in this round", rp.idx)))
				}
			}
		}
	}
	r.Count("rpc.compact", int64(nCompact))
	r.Count("rpc.commit", int64(nCommit))
	r.Count("rpc.cleanup", int64(nCleanup))
	phase := "check" // the phase in which the round ended
	switch {
	case nCommit > 0 && nCommitErr == 0:
		phase = "completed"
	case nCommit > 0:
		phase = "commit"
	case nCompact > 0:
		phase = "compact"
	}
	if sc.Overlap != "" {
		// all scripted outcomes are ok here: a round that does not complete is not one of the
		// listed failed-compact/failed-commit findings
		phase = "overlap:" + phase
	}
	r.Count("round_ended_in."+phase, 1)

	// (2) same live content on every replica (hanging replicas are still inside an RPC: skipped)
	if !sc.Hang {
		w.mu.Lock()
		defer w.mu.Unlock()
		keys := make(map[uint64]bool)
		for k := range w.model {
			keys[k] = true
		}
		var ks []uint64
		for k := range keys {
			ks = append(ks, k)
		}
		sort.Slice(ks, func(i, j int) bool { return ks[i] < ks[j] })
		modelDiffers := 0
		for _, k := range ks {
			var first string
			for i, rp := range w.reps {
				n := &needle.Needle{Id: types.NeedleId(k), Cookie: cookie}
				got := "absent"
				if _, err := rp.store.ReadVolumeNeedle(vidMain, n, nil); err == nil {
					h := sha1.Sum(n.Data)
					got = hex.EncodeToString(h[:6])
				}
				r.Eval(1)
				if i == 0 {
					first = got
					want := "absent"
					if d := w.model[k]; d != nil {
						h := sha1.Sum(d)
						want = hex.EncodeToString(h[:6])
					}
					if got != want {
						modelDiffers++
					}
				} else if got != first {
					d := detail(fmt.Sprintf("key %d: replica 0 has %s, replica %d has %s", k, first, i, got))
					r.Violation(lib.Sig{"class": "replicas-differ", "round_ended_in": phase, "mid_writes": fmt.Sprint(sc.MidWrites)}, d)
				}
			}
		}
		if modelDiffers > 0 {
			r.Count("keys_differing_from_model_on_all_replicas_alike(not judged)", int64(modelDiffers))
		}
	}

	// (3) writable exactly when the no-vacuum control has it writable
	got, want := writables(t, rpl), writables(ctl, rpl)
	for _, vid := range []uint32{vidMain, vidBystander} {
		r.Eval(1)
		g, c := has(got, vid), has(want, vid)
		if g == c {
			delete(w.prevDiff, vid)
			continue
		}
		dir := "missing"
		if g {
			dir = "extra"
		}
		vol := "vacuumed"
		if vid == vidBystander {
			vol = "bystander"
		}
		variant := sc.Variant
		if variant == "" {
			variant = "plain"
		}
		carried := w.prevDiff[vid] == dir // the previous round already left this difference
		if w.prevDiff == nil {
			w.prevDiff = make(map[uint32]string)
		}
		w.prevDiff[vid] = dir
		r.Violation(lib.Sig{"class": "writable-differs-from-control", "direction": dir, "round_ended_in": phase, "volume": vol, "variant": variant, "carried_over": fmt.Sprint(carried)},
			detail(fmt.Sprintf("volume %d writable=%v after the round, control (no vacuum) writable=%v", vid, g, c)))
	}
	if round == 1 && len(w.reps) > 0 && sc.key() != "" {
		r.Sample(map[string]interface{}{"scenario": sc, "rpc_log_replica0": w.reps[0].log, "writables_after": got, "control": want})
	}
}

// ---------------------------------------------------------------------------
// enumeration

func product(alpha []string, n int, f func([]string)) {
	idx := make([]int, n)
	for {
		cur := make([]string, n)
		for i := range idx {
			cur[i] = alpha[idx[i]]
		}
		f(cur)
		j := n - 1
		for j >= 0 {
			idx[j]++
			if idx[j] < len(alpha) {
				break
			}
			idx[j] = 0
			j--
		}
		if j < 0 {
			return
		}
	}
}

// enumerate yields every reachable combination of per-replica outcomes.
func enumerate(n int, withHang bool, f func(reps []repScript, hang bool)) {
	ck, cp := checkOutcomes, compactOutcomes
	if withHang {
		ck = append(append([]string{}, ck...), "hang")
		cp = append(append([]string{}, cp...), "hang")
	}
	product(ck, n, func(checks []string) {
		var part []int
		stop := false
		hang := false
		for i, c := range checks {
			switch c {
			case "ok":
				part = append(part, i)
			case "err":
				stop = true
			case "hang":
				stop, hang = true, true
			}
		}
		base := make([]repScript, n)
		for i := range base {
			base[i] = repScript{checks[i], "-", "-"}
		}
		if stop || len(part) == 0 {
			f(base, hang)
			return
		}
		product(cp, len(part), func(compacts []string) {
			reps := append([]repScript{}, base...)
			allOK, h := true, false
			for j, i := range part {
				reps[i].Compact = compacts[j]
				if compacts[j] != "ok" {
					allOK = false
				}
				if compacts[j] == "hang" {
					h = true
				}
			}
			if !allOK {
				f(reps, h)
				return
			}
			product(commitOutcomes, len(part), func(commits []string) {
				r2 := append([]repScript{}, reps...)
				for j, i := range part {
					r2[i].Commit = commits[j]
				}
				f(r2, false)
			})
		})
	})
}

func sortedScripts(reps []repScript) bool {
	for i := 1; i < len(reps); i++ {
		a, b := reps[i-1], reps[i]
		if a.Check+"/"+a.Compact+"/"+a.Commit > b.Check+"/"+b.Compact+"/"+b.Commit {
			return false
		}
	}
	return true
}

func isFailure(reps []repScript) bool {
	for _, r := range reps {
		if r.Check == "err" || (r.Compact != "ok" && r.Compact != "-") || (r.Commit != "ok" && r.Commit != "-") {
			return true
		}
	}
	return false
}

func main() {
	r := lib.Start("C14", "fault_enumeration")
	r.SetRule("one case = one vacuum round (or two) of the real Topology.Vacuum over 1-3 replicas, each replica a real storage.Store behind a harness gRPC VolumeServer endpoint with a per-phase outcome script: check in {ok, error, garbage below threshold, hang}, compact in {ok, error before acting, error after acting, hang}, commit in {ok, error before acting, error after acting}; all reachable combinations are enumerated; with and without replicated client writes/deletes landing between compact and commit; variants: volume reported oversized, layout under-replicated; overlap scenarios: the round is held inside its check, compact or commit phase (replicas acted, replies delayed) while 1-3 further Vacuum calls arrive one after the other, then let go. distinct = distinct (replica count, script tuple, variant, rounds, mid-writes, held phase + number of overlapping calls) and distinct per-replica RPC log shapes; non-trivial = every executed scenario (each reaches at least the check RPCs)")
	r.Assume("the volume servers are harness gRPC endpoints that call the real Store vacuum functions (CheckCompactVolume, CompactVolume, CommitCompactVolume, CommitCleanupVolume) exactly as weed/server/volume_grpc_vacuum.go does")
	r.Assume("replicas are registered with Topology.SyncDataNodeRegistration (what SendHeartbeat calls); the control topology receives the same registrations and no vacuum")
	r.Assume("'compact succeeded' means the replica answered this round's compact RPC with success (what the master can know)")
	r.Assume("hang outcomes (thorough tier only) block until the scenario ends; the master's own timers (1 min check, 3 min compact) end the phase; the verdict is on RPC logs and the writable set, never on elapsed time; a hanging commit is not enumerated because batchVacuumVolumeCommit has no timer at all")

	if os.Getenv("VERIF_CHILD_OUT") == "" {
		// the work runs in a child with GORACE exitcode=0: race reports (not decisive
		// for this property) would otherwise turn the exit status into 66
		self := os.Getenv("VERIF_SELF")
		if self == "" {
			self = os.Args[0]
		}
		env := []string{"GORACE=" + strings.TrimSpace(os.Getenv("GORACE")+" exitcode=0")}
		var args []string
		if r.Replay != "" {
			args = []string{"--replay", r.Replay}
		}
		r.RunChild("run", self, env, args...)
		if r.Replay != "" {
			r.Nontrivial("replay1")
			r.Nontrivial("replay2")
			r.Finish(0)
		}
		c := func(n string) int64 { return r.Counter("run." + n) }
		if c("rpc.commit") == 0 || c("rpc.cleanup") == 0 || c("rpc.compact") == 0 {
			r.Inconclusive("a vacuum phase was never reached (no compact, commit or cleanup RPC observed)")
		}
		if c("overlap.scenarios") == 0 || c("overlap.commit_rpcs_checked_for_compaction_result") == 0 {
			r.Inconclusive("no overlap scenario (Vacuum calls arriving during a held round) ran to its end")
		}
		r.Note("overlap_scenarios_completed", c("overlap.scenarios"))
		r.Note("distinct_outcome_combinations_executed", c("scenarios"))
		r.Note("non_hang_outcome_combinations", "exhaustively enumerated for 1-3 replicas (reachable combinations only)")
		races := lib.DedupRaces(lib.ParseRaceLogs(lib.RaceLogPath()))
		var sigs []string
		for k, v := range races {
			sigs = append(sigs, fmt.Sprintf("%dx %s", len(v), k))
		}
		sort.Strings(sigs)
		if len(sigs) > 25 {
			sigs = sigs[:25]
		}
		r.Note("race_reports_recorded_not_decisive", sigs)
		_ = os.Stdout.Sync()
		r.Finish(100)
	}

	var stubs []*lib.M13VolumeStub
	for i := 0; i < 3; i++ {
		s, err := lib.M13StartVolumeStub()
		r.Must(err, "volume stub")
		stubs = append(stubs, s)
	}

	if r.Replay != "" {
		var d struct {
			Scenario scenario `json:"scenario"`
		}
		r.Must(r.LoadReplay(&d), "load replay")
		st := stubs
		if d.Scenario.Hang {
			fmt.Println("replaying a scenario with a hang: this takes 1-3 minutes (the master's timers)")
		}
		runScenario(r, d.Scenario, st[:d.Scenario.N])
		r.Finish(0)
	}

	// hang scenarios (thorough): all at once, each with its own endpoints and topology
	var hangWG sync.WaitGroup
	if r.Thorough() {
		hrng := r.SubRng("c14-hang")
		var hs []scenario
		for n := 1; n <= 3; n++ {
			enumerate(n, true, func(reps []repScript, hang bool) {
				if !hang {
					return
				}
				if n == 3 && hrng.Intn(8) != 0 {
					return
				}
				hs = append(hs, scenario{N: n, Reps: reps, MidWrites: hrng.Intn(2) == 0, Rounds: 1, Hang: true})
			})
		}
		r.Count("hang_scenarios", int64(len(hs)))
		for _, sc := range hs {
			var own []*lib.M13VolumeStub
			for i := 0; i < sc.N; i++ {
				s, err := lib.M13StartVolumeStub()
				r.Must(err, "volume stub")
				own = append(own, s)
			}
			hangWG.Add(1)
			go func(sc scenario, own []*lib.M13VolumeStub) {
				defer hangWG.Done()
				runScenario(r, sc, own)
			}(sc, own)
		}
	}

	var list []scenario
	for n := 1; n <= 3; n++ {
		i := 0
		enumerate(n, false, func(reps []repScript, _ bool) {
			if n == 3 && r.Quick() && !sortedScripts(reps) {
				// quick tier: one representative per multiset of replica scripts (replicas are
				// interchangeable up to their position in the location list); thorough: all orders
				return
			}
			i++
			list = append(list, scenario{N: n, Reps: reps, MidWrites: true, Rounds: 1})
			if n == 1 || (n == 2 && i%3 == 0) || r.Thorough() {
				list = append(list, scenario{N: n, Reps: reps, MidWrites: false, Rounds: 1})
			}
			if isFailure(reps) && (n <= 2 || r.Thorough()) {
				list = append(list, scenario{N: n, Reps: reps, MidWrites: true, Rounds: 2})
			}
		})
	}
	ok1 := []repScript{{"ok", "ok", "ok"}}
	ok2 := []repScript{{"ok", "ok", "ok"}, {"ok", "ok", "ok"}}
	for _, v := range []string{"oversized", "under-replicated"} {
		list = append(list,
			scenario{N: 1, Reps: ok1, MidWrites: true, Rounds: 1, Variant: v},
			scenario{N: 2, Reps: ok2, MidWrites: true, Rounds: 1, Variant: v},
			scenario{N: 1, Reps: []repScript{{"ok", "err", "-"}}, MidWrites: false, Rounds: 1, Variant: v},
			scenario{N: 2, Reps: []repScript{{"ok", "ok", "ok"}, {"ok", "ok", "err"}}, MidWrites: true, Rounds: 1, Variant: v},
			scenario{N: 2, Reps: []repScript{{"ok", "ok", "-"}, {"ok", "err-after", "-"}}, MidWrites: true, Rounds: 2, Variant: v})
	}
	// overlapping triggers: a round held in each phase, 1-3 further Vacuum calls meanwhile
	for n := 1; n <= 2; n++ {
		for _, ph := range []string{"check", "compact", "commit"} {
			for extra := 1; extra <= 3; extra++ {
				list = append(list, scenario{N: n, Reps: map[int][]repScript{1: ok1, 2: ok2}[n], Rounds: 1, Overlap: ph, Extra: extra})
			}
		}
	}
	r.Note("enumerated_scenarios", len(list))
	// four lanes, each with its own three endpoints
	const lanes = 4
	var lwg sync.WaitGroup
	for l := 0; l < lanes; l++ {
		own := stubs
		if l > 0 {
			own = nil
			for i := 0; i < 3; i++ {
				s, err := lib.M13StartVolumeStub()
				r.Must(err, "volume stub")
				own = append(own, s)
			}
		}
		lwg.Add(1)
		go func(l int, own []*lib.M13VolumeStub) {
			defer lwg.Done()
			for i := l; i < len(list); i += lanes {
				r.Case(map[string]interface{}{"scenario": list[i], "lane": l})
				runScenario(r, list[i], own[:list[i].N])
				if r.Violations() > 30 {
					return
				}
			}
		}(l, own)
	}
	lwg.Wait()
	hangWG.Wait()
	r.Finish(0)
}
