// C21 — Hard links share one file.
//
// A real filer.Filer over leveldb / leveldb2 / leveldb3 is driven through the real
// FilerServer gRPC handler methods with the request sequences the mount issues for
// link (UpdateEntry(old) + CreateEntry(new)), unlink (DeleteEntry with
// IsDeleteData = counter<=1) and write (CreateEntry / UpdateEntry through one name),
// plus AtomicRenameEntry, overwrites of linked names by plain files or by names of
// another link identity (as HTTP/S3 clients and replication do), HTTP-style deletes
// (IsDeleteData=true) and recursive directory deletes. After every operation every
// name is read back (FindEntry and the parent's listing) and the KV record of every
// link identity is decoded and compared with a model {identity -> (content, names)}.
package main

import (
	"bytes"
	"context"
	"encoding/hex"
	"fmt"
	"math/rand"
	"os"
	"sort"
	"strconv"
	"strings"
	"sync"

	"github.com/chrislusf/seaweedfs/weed/filer"
	"github.com/chrislusf/seaweedfs/weed/pb/filer_pb"
	"github.com/chrislusf/seaweedfs/weed/util"

	"verifharness/lib"
)

// names: two directly below /h, two directly below /g, one at depth 2 and one at depth 3 below /g
var allNames = []string{"/h/n1", "/h/n2", "/g/n3", "/g/n4", "/g/s/n5", "/g/s/t/n6"}
var topDirs = []string{"/h", "/g"}
var dirs = []string{"/h", "/g", "/g/s", "/g/s/t"}
var dumpUniverse = []string{"/h", "/g", "/g/s", "/g/s/t", "/h-moved", "/g-moved", "/g-moved/s", "/g-moved/s/t",
	"/h/n1", "/h/n2", "/g/n3", "/g/n4", "/g/s/n5", "/g/s/t/n6",
	"/h-moved/n1", "/h-moved/n2", "/g-moved/n3", "/g-moved/n4", "/g-moved/s/n5", "/g-moved/s/t/n6"}

type op struct {
	Kind string `json:"kind"` // plain link unlink write rename rmdir
	A    string `json:"a"`
	B    string `json:"b,omitempty"`
	Mode string `json:"mode,omitempty"` // unlink: mount|http; write: create|update; rmdir: data|nodata
	Seq  int    `json:"seq,omitempty"`  // determines the fresh content / link id of the op
	// Form of the content a plain/write op stores: "chunks", "inline" (Entry.Content, no chunks) or
	// "empty" (neither); "" = chosen by Seq so that all forms and transitions occur everywhere
	Form string `json:"form,omitempty"`
}

func (o op) short() string { return o.Kind + ":" + o.A + ">" + o.B + ":" + o.Mode + ":" + o.Form }

type content struct {
	Chunks []string `json:"chunks"`
	Mtime  int64    `json:"mtime"`
	Size   uint64   `json:"size"`
	Tag    string   `json:"tag"`
	Inline string   `json:"inline,omitempty"` // Entry.Content (small files stored in the entry itself)
}

func (c content) equal(d content) bool {
	return strings.Join(c.Chunks, " ") == strings.Join(d.Chunks, " ") && c.Mtime == d.Mtime && c.Size == d.Size && c.Tag == d.Tag && c.Inline == d.Inline
}

func (c content) form() string {
	switch {
	case len(c.Chunks) > 0:
		return "chunks"
	case c.Inline != "":
		return "inline"
	}
	return "empty"
}

var forms = []string{"chunks", "inline", "empty"}

func (o op) content() content {
	form := o.Form
	if form == "" {
		form = forms[o.Seq%3]
	}
	c := content{Mtime: 1600000000 + int64(o.Seq), Tag: fmt.Sprintf("c%d", o.Seq)}
	switch form {
	case "chunks":
		c.Chunks = []string{lib.Fid(3, uint64(o.Seq)+1, 0x2b2b2b2b)}
		c.Size = 100 + uint64(o.Seq)
	case "inline":
		c.Inline = fmt.Sprintf("inline content %d", o.Seq)
		c.Size = uint64(len(c.Inline))
	}
	return c
}

func linkId(seq int) []byte {
	id := make([]byte, 17)
	copy(id, fmt.Sprintf("verif-link-%05d", seq))
	id[16] = 0x01 // HARD_LINK_MARKER of the mount
	return id
}

type nameState struct {
	Link  int // 0 plain
	Plain content
}
type linkState struct {
	Id    []byte
	C     content
	Names map[string]bool
}
type model struct {
	names map[string]*nameState
	links map[int]*linkState
}

func newModel() *model { return &model{names: map[string]*nameState{}, links: map[int]*linkState{}} }

func (m *model) clone() *model {
	c := newModel()
	for k, v := range m.names {
		vv := *v
		c.names[k] = &vv
	}
	for k, v := range m.links {
		l := &linkState{Id: v.Id, C: v.C, Names: map[string]bool{}}
		for n := range v.Names {
			l.Names[n] = true
		}
		c.links[k] = l
	}
	return c
}

func (m *model) remove(n string) {
	if s := m.names[n]; s != nil {
		if s.Link != 0 {
			delete(m.links[s.Link].Names, n)
		}
		delete(m.names, n)
	}
}

func (m *model) kindOf(n string) string {
	s := m.names[n]
	switch {
	case s == nil:
		return "new"
	case s.Link == 0:
		return "plain"
	case len(m.links[s.Link].Names) == 1:
		return "linked-last"
	}
	return "linked"
}

// coarse strips the "-last" refinement (kept in the detail, not in the signature).
func coarse(k string) string { return strings.TrimSuffix(k, "-last") }

// apply mutates the model as the statement prescribes; ok=false: the op is not applicable.
func (m *model) apply(o op) (ok bool, class string) {
	switch o.Kind {
	case "plain":
		class = "dst-" + m.kindOf(o.A)
		m.remove(o.A)
		m.names[o.A] = &nameState{Plain: o.content()}
		return true, class
	case "link":
		a, b := m.names[o.A], m.names[o.B]
		if a == nil || o.A == o.B || (b != nil && a.Link != 0 && b.Link == a.Link) {
			return false, ""
		}
		class = "src-" + m.kindOf(o.A) + ",dst-" + m.kindOf(o.B)
		if a.Link == 0 {
			m.links[o.Seq] = &linkState{Id: linkId(o.Seq), C: a.Plain, Names: map[string]bool{o.A: true}}
			a.Link = o.Seq
		}
		m.remove(o.B)
		m.names[o.B] = &nameState{Link: a.Link}
		m.links[a.Link].Names[o.B] = true
		return true, class
	case "unlink":
		if m.names[o.A] == nil {
			return false, ""
		}
		class = m.kindOf(o.A)
		m.remove(o.A)
		return true, class
	case "write":
		a := m.names[o.A]
		if a == nil {
			return false, ""
		}
		class = m.kindOf(o.A)
		if a.Link == 0 {
			a.Plain = o.content()
		} else {
			m.links[a.Link].C = o.content()
		}
		return true, class
	case "rename":
		a, b := m.names[o.A], m.names[o.B]
		if a == nil || o.A == o.B || (b != nil && a.Link != 0 && b.Link == a.Link) {
			return false, ""
		}
		class = "src-" + m.kindOf(o.A) + ",dst-" + m.kindOf(o.B)
		m.remove(o.B)
		st := *a
		m.remove(o.A)
		m.names[o.B] = &st
		if st.Link != 0 {
			m.links[st.Link].Names[o.B] = true
		}
		return true, class
	case "mvdir":
		// the directory is renamed away and back (two AtomicRenameEntry calls): every name below it
		// is renamed twice and must come back as the same name of the same identity
		any, linked := false, false
		for _, n := range allNames {
			if strings.HasPrefix(n, o.A+"/") && m.names[n] != nil {
				any = true
				if m.names[n].Link != 0 {
					linked = true
				}
			}
		}
		if !any {
			return false, ""
		}
		if linked {
			return true, "contains-linked"
		}
		return true, "plain-only"
	case "rmdir":
		any, linked := false, false
		for _, n := range allNames {
			if strings.HasPrefix(n, o.A+"/") && m.names[n] != nil {
				any = true
				if m.names[n].Link != 0 {
					linked = true
				}
			}
		}
		if !any {
			return false, ""
		}
		class = "plain-only"
		if linked {
			class = "contains-linked"
		}
		for _, n := range allNames {
			if strings.HasPrefix(n, o.A+"/") {
				m.remove(n)
			}
		}
		return true, class
	}
	return false, ""
}

// ---------------------------------------------------------------------------

type world struct {
	r          *lib.Run
	kind       string
	bm         *lib.BlobMaster
	fw         *lib.FilerWorld
	m          *model
	hist       []op
	sinceRenew int
	stats      map[string]int64
	usedKeys   [][]byte
}

func parentOf(p string) string { return p[:strings.LastIndex(p, "/")] }
func nameOf(p string) string   { return p[strings.LastIndex(p, "/")+1:] }

func (w *world) renew() {
	if w.fw != nil {
		w.fw.FreshStore()
	} else {
		w.fw = lib.NewFilerWorld(w.r, w.kind, w.bm)
	}
	w.m = newModel()
	w.sinceRenew = 0
	w.usedKeys = nil
}

func (w *world) startCase(nops int) {
	w.hist = nil
	w.sinceRenew += nops
	if w.fw == nil || w.sinceRenew > 400 {
		w.renew()
		return
	}
	d := w.fw.Dump(dumpUniverse)
	var keys [][]byte
	for _, l := range w.m.links {
		keys = append(keys, l.Id)
	}
	keys = append(keys, w.usedKeys...)
	w.fw.Wipe(d, keys)
	w.usedKeys = nil
	w.m = newModel()
}

func pbContent(name string, c content) *filer_pb.Entry {
	e := &filer_pb.Entry{Name: name,
		Attributes: &filer_pb.FuseAttributes{Mtime: c.Mtime, Crtime: 1600000000, FileMode: 0644, Uid: 1000, Gid: 1000, FileSize: c.Size, Mime: "text/plain"},
		Extended:   map[string][]byte{"tag": []byte(c.Tag)}}
	if len(c.Chunks) > 0 {
		e.Chunks = []*filer_pb.FileChunk{{FileId: c.Chunks[0], Offset: 0, Size: c.Size, Mtime: c.Mtime * 1e9}}
	}
	if c.Inline != "" {
		e.Content = []byte(c.Inline)
	}
	return e
}

func contentOf(e *filer.Entry) content {
	return content{Chunks: lib.ChunkIds(e.Chunks), Mtime: e.Attr.Mtime.Unix(), Size: e.Attr.FileSize, Tag: lib.EntryTag(e), Inline: string(e.Content)}
}

func (w *world) lookup(p string) *filer_pb.Entry {
	resp, err := w.fw.FS.LookupDirectoryEntry(context.Background(), &filer_pb.LookupDirectoryEntryRequest{Directory: parentOf(p), Name: nameOf(p)})
	if err != nil || resp == nil {
		return nil
	}
	return resp.Entry
}

// exec issues the requests a client issues for the op. Errors are returned as text (informational).
func (w *world) exec(o op) string {
	ctx := context.Background()
	fs := w.fw.FS
	create := func(dir string, e *filer_pb.Entry) string {
		resp, err := fs.CreateEntry(ctx, &filer_pb.CreateEntryRequest{Directory: dir, Entry: e})
		if err != nil {
			return err.Error()
		}
		if resp != nil && resp.Error != "" {
			return resp.Error
		}
		return ""
	}
	switch o.Kind {
	case "plain":
		return create(parentOf(o.A), pbContent(nameOf(o.A), o.content()))
	case "link":
		old := w.lookup(o.A)
		if old == nil {
			return "lookup failed"
		}
		if len(old.HardLinkId) == 0 {
			old.HardLinkId = linkId(o.Seq)
			old.HardLinkCounter = 1
			w.usedKeys = append(w.usedKeys, old.HardLinkId)
		}
		old.HardLinkCounter++
		if _, err := fs.UpdateEntry(ctx, &filer_pb.UpdateEntryRequest{Directory: parentOf(o.A), Entry: old}); err != nil {
			return "update old: " + err.Error()
		}
		return create(parentOf(o.B), &filer_pb.Entry{Name: nameOf(o.B), Attributes: old.Attributes, Chunks: lib.CloneChunks(old.Chunks),
			Extended: old.Extended, Content: old.Content, HardLinkId: old.HardLinkId, HardLinkCounter: old.HardLinkCounter})
	case "unlink":
		e := w.lookup(o.A)
		deleteData := true
		if o.Mode == "mount" {
			deleteData = e != nil && e.HardLinkCounter <= 1
		}
		resp, err := fs.DeleteEntry(ctx, &filer_pb.DeleteEntryRequest{Directory: parentOf(o.A), Name: nameOf(o.A), IsDeleteData: deleteData})
		if err != nil {
			return err.Error()
		}
		return resp.Error
	case "write":
		e := w.lookup(o.A)
		if e == nil {
			return "lookup failed"
		}
		n := pbContent(nameOf(o.A), o.content())
		n.HardLinkId, n.HardLinkCounter = e.HardLinkId, e.HardLinkCounter
		if o.Mode == "update" {
			if _, err := fs.UpdateEntry(ctx, &filer_pb.UpdateEntryRequest{Directory: parentOf(o.A), Entry: n}); err != nil {
				return err.Error()
			}
			return ""
		}
		return create(parentOf(o.A), n)
	case "rename":
		_, err := fs.AtomicRenameEntry(ctx, &filer_pb.AtomicRenameEntryRequest{OldDirectory: parentOf(o.A), OldName: nameOf(o.A), NewDirectory: parentOf(o.B), NewName: nameOf(o.B)})
		if err != nil {
			return err.Error()
		}
	case "mvdir":
		tmp := o.A + "-moved"
		if _, err := fs.AtomicRenameEntry(ctx, &filer_pb.AtomicRenameEntryRequest{OldDirectory: "/", OldName: nameOf(o.A), NewDirectory: "/", NewName: nameOf(tmp)}); err != nil {
			return "away: " + err.Error()
		}
		if _, err := fs.AtomicRenameEntry(ctx, &filer_pb.AtomicRenameEntryRequest{OldDirectory: "/", OldName: nameOf(tmp), NewDirectory: "/", NewName: nameOf(o.A)}); err != nil {
			return "back: " + err.Error()
		}
	case "rmdir":
		resp, err := fs.DeleteEntry(ctx, &filer_pb.DeleteEntryRequest{Directory: parentOf(o.A) + "/", Name: nameOf(o.A), IsDeleteData: o.Mode == "data", IsRecursive: true})
		if err != nil {
			return err.Error()
		}
		return resp.Error
	}
	return ""
}

// rmdirShape classifies a recursive delete: how deep below the deleted directory the deepest
// hard-linked name sits, and whether an identity with a name inside also has names outside.
func rmdirShape(m *model, dir string) (depth, others string) {
	d, out := 0, false
	for _, n := range allNames {
		st := m.names[n]
		if st == nil || st.Link == 0 || !strings.HasPrefix(n, dir+"/") {
			continue
		}
		if k := strings.Count(n[len(dir):], "/"); k > d {
			d = k
		}
		for other := range m.links[st.Link].Names {
			if !strings.HasPrefix(other, dir+"/") {
				out = true
			}
		}
	}
	others = "inside-only"
	if out {
		others = "outside"
	}
	return fmt.Sprint(d), others
}

type problem struct {
	class string
	msg   string
}

// verify compares what readers see with the model; returns the first discrepancy in a fixed order.
func (w *world) verify() (*problem, map[string]interface{}) {
	ctx := context.Background()
	f := w.fw.Filer
	view := map[string]interface{}{}
	real := map[string]*filer.Entry{}
	for _, n := range allNames {
		e, err := f.FindEntry(ctx, util.FullPath(n))
		if err == nil && e != nil {
			real[n] = e
			view[n] = map[string]interface{}{"link": hex.EncodeToString(e.HardLinkId), "counter": e.HardLinkCounter, "content": contentOf(e)}
		}
	}
	w.r.Eval(len(allNames))
	for _, n := range allNames {
		m, e := w.m.names[n], real[n]
		switch {
		case m == nil && e != nil:
			return &problem{"name-unexpected", n + " exists but was removed"}, view
		case m != nil && e == nil:
			return &problem{"name-missing", n + " does not exist"}, view
		case m == nil:
			continue
		}
		if m.Link == 0 {
			if len(e.HardLinkId) != 0 {
				return &problem{"plain-name-shows-link-id", n + " is a plain file but carries a hard link id"}, view
			}
			if !contentOf(e).equal(m.Plain) {
				return &problem{"plain-content-differs", fmt.Sprintf("%s shows %+v, last written %+v", n, contentOf(e), m.Plain)}, view
			}
		} else if !bytes.Equal(e.HardLinkId, w.m.links[m.Link].Id) {
			if len(e.HardLinkId) == 0 {
				return &problem{"link-dropped", n + " is a name of link identity " + fmt.Sprint(m.Link) + " but is stored as an unlinked file"}, view
			}
			return &problem{"link-id-differs", n + " shows another link identity"}, view
		}
	}
	ids := make([]int, 0, len(w.m.links))
	for id := range w.m.links {
		ids = append(ids, id)
	}
	sort.Ints(ids)
	for _, id := range ids {
		l := w.m.links[id]
		val, err := f.Store.KvGet(ctx, l.Id)
		w.r.Eval(1)
		rec := &filer.Entry{}
		if err == nil {
			if derr := rec.DecodeAttributesAndChunks(val); derr != nil {
				return &problem{"record-undecodable", derr.Error()}, view
			}
			view[fmt.Sprintf("kv-%d", id)] = map[string]interface{}{"counter": rec.HardLinkCounter, "content": contentOf(rec)}
		} else {
			view[fmt.Sprintf("kv-%d", id)] = err.Error()
		}
		names := make([]string, 0, len(l.Names))
		for n := range l.Names {
			names = append(names, n)
		}
		sort.Strings(names)
		if len(names) == 0 {
			if err != filer.ErrKvNotFound {
				return &problem{"counter-too-high", fmt.Sprintf("link identity %d has no name left but its KV record still exists (counter %d)", id, rec.HardLinkCounter)}, view
			}
			continue
		}
		if err == filer.ErrKvNotFound {
			return &problem{"record-missing", fmt.Sprintf("link identity %d has names %v but no KV record", id, names)}, view
		}
		if err != nil {
			return &problem{"record-unreadable", err.Error()}, view
		}
		if int(rec.HardLinkCounter) != len(names) {
			cl := "counter-too-high"
			if int(rec.HardLinkCounter) < len(names) {
				cl = "counter-too-low"
			}
			return &problem{cl, fmt.Sprintf("link identity %d: stored counter %d, live names %v", id, rec.HardLinkCounter, names)}, view
		}
		if !contentOf(rec).equal(l.C) {
			return &problem{"record-content-differs", fmt.Sprintf("link identity %d record shows %+v, last written %+v", id, contentOf(rec), l.C)}, view
		}
		for _, n := range names {
			e := real[n]
			if !contentOf(e).equal(l.C) {
				return &problem{"name-content-differs", fmt.Sprintf("%s shows %+v, last written through a name of the identity %+v", n, contentOf(e), l.C)}, view
			}
			if int(e.HardLinkCounter) != len(names) {
				return &problem{"name-counter-differs", fmt.Sprintf("%s shows counter %d, live names %v", n, e.HardLinkCounter, names)}, view
			}
		}
	}
	// the listing view of linked names
	for _, d := range dirs {
		entries, _, err := f.ListDirectoryEntries(ctx, util.FullPath(d), "", false, 1000, "", "", "")
		if err != nil {
			continue
		}
		for _, le := range entries {
			m := w.m.names[string(le.FullPath)]
			if m == nil || m.Link == 0 {
				continue
			}
			w.r.Eval(1)
			l := w.m.links[m.Link]
			if !contentOf(le).equal(l.C) || int(le.HardLinkCounter) != len(l.Names) {
				view["listed "+string(le.FullPath)] = map[string]interface{}{"counter": le.HardLinkCounter, "content": contentOf(le)}
				return &problem{"listing-shows-stale-copy", fmt.Sprintf("listing of %s shows %s with %+v counter %d; identity has %+v, %d names", d, le.FullPath, contentOf(le), le.HardLinkCounter, l.C, len(l.Names))}, view
			}
		}
	}
	return nil, view
}

// step runs one op; returns (continue, knownFindingHit)
func (w *world) step(o op) (bool, bool) {
	r := w.r
	before := w.m.clone()
	ok, class := w.m.apply(o)
	if !ok {
		w.m = before
		w.stats[o.Kind+".inapplicable"]++
		return true, false
	}
	w.hist = append(w.hist, o)
	errText := w.exec(o)
	w.stats[o.Kind+"."+class]++
	r.Count("ops_applied", 1)
	p, view := w.verify()
	if p == nil || p.class == "listing-shows-stale-copy" {
		if errText != "" {
			// the request reported an error but every reader sees what the statement prescribes
			w.stats[o.Kind+".error-but-consistent"]++
		}
		switch o.Kind {
		case "link":
			r.Count("links_made", 1)
		case "unlink", "rmdir":
			if strings.Contains(class, "linked") {
				r.Count("linked_names_removed", 1)
			}
			if o.Kind == "rmdir" && class == "contains-linked" {
				d, others := rmdirShape(before, o.A)
				r.Count("rmdir_"+o.Mode+"_linked_depth"+d+"_"+others, 1)
			}
		case "write":
			if strings.HasPrefix(class, "linked") {
				r.Count("writes_through_linked_name", 1)
				if st := before.names[o.A]; st != nil && st.Link != 0 {
					r.Count("linked_write_"+before.links[st.Link].C.form()+"_to_"+o.content().form(), 1)
				}
			}
		}
		if p == nil {
			return true, false
		}
	}
	sig := lib.Sig{"op": o.Kind, "class": p.class}
	for _, part := range strings.Split(class, ",") {
		switch {
		case strings.HasPrefix(part, "src-"):
			sig["src"] = coarse(part[4:])
		case strings.HasPrefix(part, "dst-"):
			sig["dst"] = coarse(part[4:])
		default:
			sig["target"] = coarse(part)
		}
	}
	if o.Mode != "" {
		sig["mode"] = o.Mode
	}
	if o.Kind == "rmdir" {
		sig["depth"], sig["other_names"] = rmdirShape(before, o.A)
	}
	unlisted := r.Violation(sig, map[string]interface{}{"msg": p.msg, "store": w.kind, "history": w.hist, "op": o, "input_class": class,
		"op_error": errText, "readers_see": view})
	if !unlisted && p.class == "listing-shows-stale-copy" {
		// listed finding about a view only: FindEntry and the KV record agree with the model, go on
		return true, false
	}
	return false, !unlisted
}

func (w *world) runSeq(ops []op) (executed int, known bool) {
	w.r.Case(map[string]interface{}{"store": w.kind, "ops": ops})
	w.startCase(len(ops))
	for i, o := range ops {
		cont, k := w.step(o)
		if !cont {
			return i + 1, k
		}
	}
	return len(ops), false
}

// ---------------------------------------------------------------------------

func alphabet() []op {
	return []op{
		{Kind: "plain", A: "/h/n1"}, {Kind: "plain", A: "/h/n2"}, {Kind: "plain", A: "/g/n3"},
		{Kind: "link", A: "/h/n1", B: "/h/n2"}, {Kind: "link", A: "/h/n1", B: "/g/n3"}, {Kind: "link", A: "/h/n2", B: "/h/n1"},
		{Kind: "link", A: "/g/n3", B: "/h/n2"}, {Kind: "link", A: "/h/n2", B: "/g/n3"},
		{Kind: "unlink", A: "/h/n1", Mode: "mount"}, {Kind: "unlink", A: "/h/n2", Mode: "mount"}, {Kind: "unlink", A: "/h/n1", Mode: "http"}, {Kind: "unlink", A: "/g/n3", Mode: "mount"},
		{Kind: "write", A: "/h/n1", Mode: "create"}, {Kind: "write", A: "/h/n2", Mode: "update"}, {Kind: "write", A: "/g/n3", Mode: "create"},
		{Kind: "rename", A: "/h/n1", B: "/g/n3"}, {Kind: "rename", A: "/h/n2", B: "/g/n3"}, {Kind: "rename", A: "/g/n3", B: "/h/n1"}, {Kind: "rename", A: "/h/n1", B: "/g/n4"},
		{Kind: "rmdir", A: "/h", Mode: "data"}, {Kind: "rmdir", A: "/g", Mode: "nodata"}, {Kind: "mvdir", A: "/h"},
	}
}

func randomOp(rng *rand.Rand, m *model) op {
	pick := func() string { return allNames[rng.Intn(len(allNames))] }
	existing := func() string {
		var ex []string
		for _, n := range allNames {
			if m.names[n] != nil {
				ex = append(ex, n)
			}
		}
		if len(ex) == 0 || rng.Intn(8) == 0 {
			return pick()
		}
		return ex[rng.Intn(len(ex))]
	}
	x := rng.Intn(100)
	switch {
	case x < 15:
		return op{Kind: "plain", A: pick()}
	case x < 40:
		return op{Kind: "link", A: existing(), B: pick()}
	case x < 55:
		return op{Kind: "unlink", A: existing(), Mode: []string{"mount", "mount", "http"}[rng.Intn(3)]}
	case x < 75:
		return op{Kind: "write", A: existing(), Mode: []string{"create", "update"}[rng.Intn(2)]}
	case x < 93:
		return op{Kind: "rename", A: existing(), B: pick()}
	case x < 96:
		return op{Kind: "mvdir", A: topDirs[rng.Intn(2)]}
	default:
		return op{Kind: "rmdir", A: dirs[rng.Intn(len(dirs))], Mode: []string{"data", "data", "nodata"}[rng.Intn(3)]}
	}
}

func runBatch(r *lib.Run, mode, kind string, shard, nshards, sampleOneIn int) {
	bm := lib.StartBlobMaster(r)
	defer bm.Stop()
	w := &world{r: r, kind: kind, bm: bm, stats: map[string]int64{}}
	seq := 0
	switch mode {
	case "exh":
		alpha := alphabet()
		L := r.Pick(4, 5)
		rng := r.SubRng("c21-exh-sample-" + kind)
		dead := map[string]bool{}
		idx := 0
		var rec func(prefix []op, m *model)
		rec = func(prefix []op, m *model) {
			if r.Violations() > 20 {
				return
			}
			if len(prefix) == L {
				idx++
				keep := sampleOneIn <= 1 || rng.Intn(sampleOneIn) == 0
				if idx%nshards != shard || !keep {
					return
				}
				key := ""
				for _, o := range prefix {
					key += "|" + o.short()
					if dead[key] {
						r.Count("sequences_skipped_prefix_has_known_finding", 1)
						return
					}
				}
				ops := make([]op, L)
				for i, o := range prefix {
					seq++
					o.Seq = seq
					ops[i] = o
				}
				n, known := w.runSeq(ops)
				r.Count("sequences_exhaustive", 1)
				r.Nontrivial(kind + key)
				if known {
					k := ""
					for _, o := range prefix[:n] {
						k += "|" + o.short()
					}
					dead[k] = true
				}
				if idx%997 == 0 {
					r.Sample(map[string]interface{}{"store": kind, "ops": ops})
				}
				return
			}
			for _, o := range alpha {
				mm := m.clone()
				o.Seq = 1000000 + len(prefix) // placeholder; only applicability matters here
				if ok, _ := mm.apply(o); !ok {
					continue
				}
				rec(append(prefix[:len(prefix):len(prefix)], o), mm)
			}
		}
		rec(nil, newModel())
		// recursive deletes with hard-linked names at depth 1, 2 and 3 below the deleted folder:
		// every non-empty subset of {/g/n3, /g/s/n5, /g/s/t/n6} linked to an identity whose first
		// name lives outside (/h/n1) or inside (/g/n4) the tree, each deletable folder, with and
		// without data deletion, optionally a write through the first name before, and afterwards
		// the removal of what is left (the record must go with the last name).
		inside := []string{"/g/n3", "/g/s/n5", "/g/s/t/n6"}
		nfam := 0
		for _, first := range []string{"/h/n1", "/g/n4"} {
			for mask := 1; mask < 8; mask++ {
				for _, target := range []string{"/g", "/g/s", "/g/s/t"} {
					for _, mode := range []string{"data", "nodata"} {
						for _, withWrite := range []bool{false, true} {
							nfam++
							if nfam%nshards != shard || (withWrite && sampleOneIn > 1 && nfam%sampleOneIn != 0) {
								continue
							}
							ops := []op{{Kind: "plain", A: first}}
							for i, n := range inside {
								if mask&(1<<uint(i)) != 0 {
									ops = append(ops, op{Kind: "link", A: first, B: n})
								}
							}
							if withWrite {
								ops = append(ops, op{Kind: "write", A: first, Mode: "create"})
							}
							ops = append(ops, op{Kind: "rmdir", A: target, Mode: mode},
								op{Kind: "write", A: first, Mode: "update"},
								op{Kind: "unlink", A: first, Mode: "mount"},
								op{Kind: "rmdir", A: "/g", Mode: "data"})
							key := kind + "|deep"
							for i := range ops {
								seq++
								ops[i].Seq = seq
								key += "|" + ops[i].short()
							}
							w.runSeq(ops)
							r.Count("sequences_deep_recursive_delete", 1)
							r.Nontrivial(key)
							if nfam == 29 {
								r.Sample(map[string]interface{}{"store": kind, "ops": ops})
							}
						}
					}
				}
			}
		}
		// content forms of the shared record: chunks, inline Content, neither; every transition
		// between them, written through either name, by CreateEntry or UpdateEntry, then once more
		// through the other name, then one name removed
		nform := 0
		for _, f1 := range forms {
			for _, f2 := range forms {
				for _, f3 := range forms {
					for _, via := range []string{"create", "update"} {
						for _, writer := range []string{"/h/n1", "/g/n3"} {
							nform++
							if nform%nshards != shard || (sampleOneIn > 1 && f3 != "empty" && nform%2 == 0) {
								continue
							}
							other := "/g/n3"
							if writer == other {
								other = "/h/n1"
							}
							ops := []op{{Kind: "plain", A: "/h/n1", Form: f1}, {Kind: "link", A: "/h/n1", B: "/g/n3"},
								{Kind: "write", A: writer, Mode: via, Form: f2}, {Kind: "write", A: other, Mode: via, Form: f3},
								{Kind: "link", A: other, B: "/h/n2"}, {Kind: "unlink", A: writer, Mode: "mount"}, {Kind: "write", A: "/h/n2", Mode: "create"}}
							key := kind + "|forms"
							for i := range ops {
								seq++
								ops[i].Seq = seq
								key += "|" + ops[i].short()
							}
							w.runSeq(ops)
							r.Count("sequences_content_forms", 1)
							r.Nontrivial(key)
							if nform == 7 {
								r.Sample(map[string]interface{}{"store": kind, "ops": ops})
							}
						}
					}
				}
			}
		}
		r.Note("exhaustive", fmt.Sprintf("all sequences of %d applicable ops over a %d-op alphabet (3 names + 1 spare, identities created on demand), sampled 1 in %d; sequences whose prefix already showed a listed finding are skipped", L, len(alpha), sampleOneIn))
	case "rand":
		nseq, nops := r.Pick(45, 600), 40
		rng := r.SubRng("c21-rand-" + kind)
		for s := 0; s < nseq; s++ {
			seed := rng.Int63()
			if s%nshards != shard {
				continue
			}
			srng := rand.New(rand.NewSource(seed))
			w.startCase(nops)
			var ops []op
			applied := 0
			for i := 0; i < nops; i++ {
				o := randomOp(srng, w.m)
				seq++
				o.Seq = seq
				ops = append(ops, o)
				r.Case(map[string]interface{}{"store": kind, "ops": ops})
				cont, known := w.step(o)
				if !cont {
					if !known {
						break
					}
					// listed finding: start over from an empty namespace inside the same sequence
					w.startCase(0)
					continue
				}
				applied++
			}
			r.Count("sequences_random", 1)
			if applied > 0 {
				key := kind
				for _, o := range ops {
					key += "|" + o.short()
				}
				r.Nontrivial(key)
			}
			if s == 0 {
				r.Sample(map[string]interface{}{"store": kind, "random_sequence_prefix": ops[:12]})
			}
			if r.Violations() > 20 {
				break
			}
		}
	}
	r.Note("ops_by_kind_and_input_class", w.stats)
	r.Finish(0)
}

func main() {
	r := lib.Start("C21", "exploration")
	r.SetRule("histories of plain-create / link (UpdateEntry old + CreateEntry new, as Dir.Link) / unlink (mount: IsDeleteData=counter<=1, http: true) / write through one name (CreateEntry or UpdateEntry) / AtomicRenameEntry / overwrite of a linked name by a plain file or by a name of another identity / recursive directory delete (linked names at depth 1, 2 and 3 below the deleted folder, other names of the identity inside or outside the tree, with and without data deletion) / directory renamed away and back, over 6 names in 4 directories with link identities created on demand, on a real Filer over leveldb/leveldb2/leveldb3; after every op each name is read (FindEntry + parent listing) and each identity's KV record decoded and compared with the model. distinct = distinct (store, op sequence); non-trivial = at least one applicable op executed")
	r.Assume("content and attributes compared: chunk file ids, inline content, mtime (seconds), file size, extended attribute (the shared record carries chunks, inline Entry.Content, or neither); the link counter a client writes is the one it read plus one (single client)")
	r.Assume("renaming one name of an identity onto another name of the same identity, and linking a name onto itself, are not generated (POSIX defines them as no-ops; the statement does not say)")

	mode, kind, shard, nshards, sample := "", "leveldb", 0, 1, 1
	if len(r.Args) >= 5 {
		mode, kind = r.Args[0], r.Args[1]
		shard, _ = strconv.Atoi(r.Args[2])
		nshards, _ = strconv.Atoi(r.Args[3])
		sample, _ = strconv.Atoi(r.Args[4])
	}
	if r.Replay != "" {
		var d struct {
			Store   string `json:"store"`
			History []op   `json:"history"`
		}
		r.Must(r.LoadReplay(&d), "load replay")
		bm := lib.StartBlobMaster(r)
		w := &world{r: r, kind: d.Store, bm: bm, stats: map[string]int64{}}
		w.runSeq(d.History)
		r.Nontrivial("replay")
		r.Nontrivial("replay2")
		r.Finish(0)
	}
	if mode != "" {
		runBatch(r, mode, kind, shard, nshards, sample)
		return
	}
	self := os.Getenv("VERIF_SELF")
	if self == "" {
		self, _ = os.Executable()
	}
	type job struct {
		label string
		args  []string
	}
	var jobs []job
	exhShards := r.Pick(2, 4)
	for s := 0; s < exhShards; s++ {
		jobs = append(jobs, job{fmt.Sprintf("exh-leveldb-%d", s), []string{"exh", "leveldb", fmt.Sprint(s), fmt.Sprint(exhShards), fmt.Sprint(r.Pick(1, 3))}})
	}
	for _, k := range []string{"leveldb2", "leveldb3"} {
		jobs = append(jobs, job{"exh-" + k, []string{"exh", k, "0", "1", fmt.Sprint(r.Pick(8, 24))}})
	}
	for _, k := range lib.FilerStoreKinds {
		jobs = append(jobs, job{"rand-" + k, []string{"rand", k, "0", "1", "1"}})
	}
	sem := make(chan struct{}, r.Pick(4, 6))
	var wg sync.WaitGroup
	for _, j := range jobs {
		wg.Add(1)
		sem <- struct{}{}
		go func(j job) {
			defer wg.Done()
			defer func() { <-sem }()
			r.RunChild(j.label, self, []string{"GOMAXPROCS=2"}, j.args...)
		}(j)
	}
	wg.Wait()
	var links, removed, writes, deep int64
	for _, j := range jobs {
		for _, d := range []string{"2", "3"} {
			deep += r.Counter(j.label + ".rmdir_data_linked_depth" + d + "_outside")
		}
		links += r.Counter(j.label + ".links_made")
		removed += r.Counter(j.label + ".linked_names_removed")
		writes += r.Counter(j.label + ".writes_through_linked_name")
	}
	r.Count("total_links_made", links)
	r.Count("total_linked_names_removed", removed)
	r.Count("total_writes_through_linked_name", writes)
	r.Count("total_recursive_deletes_with_data_of_linked_names_at_depth_2_or_3_with_names_outside", deep)
	if deep == 0 {
		r.Inconclusive("no recursive delete with data deletion of a hard-linked name at depth >= 2 (other names outside the tree) was observed to behave as the model says")
	}
	if links == 0 || removed == 0 || writes == 0 {
		r.Inconclusive("no link / removal of a linked name / write through a linked name was observed to behave as the model says")
	}
	r.Finish(100)
}
