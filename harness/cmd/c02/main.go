// C02 — Needle on-disk encoding round-trips and is self-checking.
//
// Real needle.Append into a real backend.DiskFile, decoded again with
// Needle.ReadData / ReadNeedleBlob+ReadBytes and walked with
// storage.ScanVolumeFileFrom (recording scanner), needle versions 2 and 3.
// Part 1: the full grid flags(2^6) x name/mime boundary lengths x data lengths.
// Part 2: seeded random blobs (random lengths, pairs up to 65535 bytes).
// Part 3: single-bit flips at every bit of every data byte of sampled records
//
//	(decisive), flips of header/size/length bytes (recorded only).
//
// Part 4: the same corruption seen through a real volume (Store read path).
package main

import (
	"bytes"
	"compress/gzip"
	"encoding/json"
	"fmt"
	"math/rand"
	"mime/multipart"
	"net/http"
	"net/textproto"
	"os"
	"path/filepath"
	"strings"
	"time"

	"github.com/chrislusf/seaweedfs/weed/storage"
	"github.com/chrislusf/seaweedfs/weed/storage/backend"
	"github.com/chrislusf/seaweedfs/weed/storage/needle"
	"github.com/chrislusf/seaweedfs/weed/storage/super_block"
	"github.com/chrislusf/seaweedfs/weed/storage/types"

	"verifharness/lib"
)

// spec is the generated description of one blob (enough to rebuild it).
type spec struct {
	Version  int    `json:"version"`
	Id       uint64 `json:"id"`
	Cookie   uint32 `json:"cookie"`
	Flags    byte   `json:"flags"` // subset of 0x3f
	DataLen  int    `json:"data_len"`
	NameLen  int    `json:"name_len"`
	MimeLen  int    `json:"mime_len"`
	PairsLen int    `json:"pairs_len"`
	Lm       uint64 `json:"last_modified"`
	Ttl      string `json:"ttl"`
	Fill     int64  `json:"fill_seed"` // seed of the content bytes
	// Upload != "": the needle is not assembled by the harness but by the upload entry point
	// needle.CreateNeedleFromRequest from a real http.Request (PUT with Content-Type, or
	// multipart POST with file name and part Content-Type); NameLen/MimeLen/PairsLen then are
	// the lengths *sent* (the entry point drops names/mimes >= 256 and pairs >= 64 KiB)
	Upload string `json:"upload,omitempty"`
	Gzip   bool   `json:"gzip,omitempty"`
}

func letters(n int, c byte) string { return strings.Repeat(string(c), n) }

func mimeOf(n int) string {
	switch {
	case n == 0:
		return ""
	case n < 3:
		return letters(n, 'x')
	}
	return "x/" + letters(n-2, 'm')
}

// uploadRequest builds the http.Request an upload with these properties is.
func uploadRequest(s spec) (*http.Request, []byte, string, string, []byte, error) {
	rng := rand.New(rand.NewSource(s.Fill))
	data := fill(rng, s.DataLen)
	if s.Gzip {
		var zb bytes.Buffer
		zw := gzip.NewWriter(&zb)
		_, _ = zw.Write(bytes.Repeat([]byte("compressible "), s.DataLen/13+1))
		_ = zw.Close()
		data = zb.Bytes()
	}
	name, mimeType := letters(s.NameLen, 'n'), mimeOf(s.MimeLen)
	url := fmt.Sprintf("http://127.0.0.1/1,%x%08x", s.Id, s.Cookie)
	q := []string{}
	if s.Lm != 0 {
		q = append(q, fmt.Sprintf("ts=%d", s.Lm))
	}
	if s.Ttl != "" {
		q = append(q, "ttl="+s.Ttl)
	}
	if len(q) > 0 {
		url += "?" + strings.Join(q, "&")
	}
	var req *http.Request
	var err error
	if s.Upload == "PUT" {
		name = ""
		req, err = http.NewRequest("PUT", url, bytes.NewReader(data))
		if err == nil && mimeType != "" {
			req.Header.Set("Content-Type", mimeType)
		}
		if err == nil && s.Gzip {
			req.Header.Set("Content-Encoding", "gzip")
		}
	} else {
		var body bytes.Buffer
		mw := multipart.NewWriter(&body)
		h := textproto.MIMEHeader{}
		cd := `form-data; name="file"`
		if name != "" {
			cd += `; filename="` + name + `"`
		}
		h.Set("Content-Disposition", cd)
		if mimeType != "" {
			h.Set("Content-Type", mimeType)
		}
		if s.Gzip {
			h.Set("Content-Encoding", "gzip")
		}
		pw, e := mw.CreatePart(h)
		if e != nil {
			return nil, nil, "", "", nil, e
		}
		_, _ = pw.Write(data)
		_ = mw.Close()
		req, err = http.NewRequest("POST", url, &body)
		if err == nil {
			req.Header.Set("Content-Type", mw.FormDataContentType())
		}
	}
	if err != nil {
		return nil, nil, "", "", nil, err
	}
	var pairs []byte
	if s.PairsLen > 0 {
		// one pair header whose JSON form {"Kk":"vvv..."} is exactly PairsLen bytes long
		v := letters(s.PairsLen-9, 'v')
		req.Header.Set(needle.PairNamePrefix+"Kk", v)
		pairs, _ = json.Marshal(map[string]string{"Kk": v})
	}
	return req, data, name, mimeType, pairs, nil
}

// buildUpload runs the real upload entry point.
func buildUpload(s spec) (*needle.Needle, error) {
	req, _, _, _, _, err := uploadRequest(s)
	if err != nil {
		return nil, err
	}
	// as VolumeServer.PostHandler does before it builds the needle (this is what makes the ts
	// and ttl URL parameters visible to ParseUpload for multipart bodies)
	if err := req.ParseForm(); err != nil {
		return nil, err
	}
	n, _, _, err := needle.CreateNeedleFromRequest(req, false, 64*1024*1024, new(bytes.Buffer))
	return n, err
}

func cloneNeedle(n *needle.Needle) *needle.Needle {
	c := *n
	c.Data = append([]byte{}, n.Data...)
	c.Name = append([]byte{}, n.Name...)
	c.Mime = append([]byte{}, n.Mime...)
	c.Pairs = append([]byte{}, n.Pairs...)
	if n.Ttl != nil {
		t := *n.Ttl
		c.Ttl = &t
	}
	return &c
}

// uploadExpectation compares the decoded record with what the request carried, for the
// parts the statement covers (names and mimes under 256 bytes, pairs under 64 KiB).
func uploadExpectation(s spec, got *needle.Needle) []string {
	_, data, name, mimeType, pairs, err := uploadRequest(s)
	if err != nil || len(data) == 0 {
		return nil // zero-length payloads lose their metadata (listed finding)
	}
	var bad []string
	if !bytes.Equal(got.Data, data) {
		bad = append(bad, "data")
	}
	if got.IsCompressed() != s.Gzip {
		bad = append(bad, "compressed")
	}
	if len(name) < 256 && (!got.HasName() || string(got.Name) != name) {
		bad = append(bad, "name")
	}
	if len(mimeType) < 256 && (!got.HasMime() || string(got.Mime) != mimeType) {
		bad = append(bad, "mime")
	}
	if s.PairsLen > 0 && s.PairsLen < 65536 && (!got.HasPairs() || !bytes.Equal(got.Pairs, pairs)) {
		bad = append(bad, "pairs")
	}
	if s.PairsLen == 0 && got.HasPairs() {
		bad = append(bad, "pairs")
	}
	if s.Lm != 0 && (!got.HasLastModifiedDate() || got.LastModified != s.Lm&(1<<40-1)) {
		bad = append(bad, "last_modified")
	}
	if s.Ttl != "" {
		want, _ := needle.ReadTTL(s.Ttl)
		if !got.HasTtl() || got.Ttl == nil || *got.Ttl != *want {
			bad = append(bad, "ttl")
		}
	}
	return bad
}

const allFlags = needle.FlagIsCompressed | needle.FlagHasName | needle.FlagHasMime |
	needle.FlagHasLastModifiedDate | needle.FlagHasTtl | needle.FlagHasPairs

func fill(rng *rand.Rand, n int) []byte {
	b := make([]byte, n)
	rng.Read(b)
	return b
}

// build makes the needle an upload with these properties would produce: a field is
// present exactly when its flag is set (CreateNeedleFromRequest keeps them consistent).
func build(s spec) *needle.Needle {
	rng := rand.New(rand.NewSource(s.Fill))
	n := new(needle.Needle)
	n.Id = types.NeedleId(s.Id)
	n.Cookie = types.Cookie(s.Cookie)
	n.Data = fill(rng, s.DataLen)
	n.Ttl = needle.EMPTY_TTL
	if s.Flags&needle.FlagIsCompressed != 0 {
		n.SetIsCompressed()
	}
	if s.Flags&needle.FlagHasName != 0 {
		n.Name = fill(rng, s.NameLen)
		n.SetHasName()
	}
	if s.Flags&needle.FlagHasMime != 0 {
		n.Mime = fill(rng, s.MimeLen)
		n.SetHasMime()
	}
	if s.Flags&needle.FlagHasLastModifiedDate != 0 {
		n.LastModified = s.Lm
		n.SetHasLastModifiedDate()
	}
	if s.Flags&needle.FlagHasTtl != 0 {
		n.Ttl, _ = needle.ReadTTL(s.Ttl)
		n.SetHasTtl()
	}
	if s.Flags&needle.FlagHasPairs != 0 {
		n.Pairs = fill(rng, s.PairsLen)
		n.PairsSize = uint16(s.PairsLen)
		n.SetHasPairs()
	}
	n.Checksum = needle.NewCRC(n.Data)
	return n
}

type written struct {
	s      spec
	exp    *needle.Needle // what was handed to Append (fields untouched by us afterwards)
	offset int64
	size   types.Size // n.Size after Append (the value the index would carry)
	actual int64
}

type ctx struct {
	r *lib.Run
}

func inputClass(s spec) string {
	if s.DataLen == 0 {
		return "empty-payload"
	}
	return "nonempty"
}

// diff compares the decoded needle with the blob that was written; returns the
// names of differing fields, metadata fields separately from identity/data.
func diff(exp, got *needle.Needle, version needle.Version, appendAtNs uint64, bodyOnly bool) (core []string, meta []string) {
	if got.Id != exp.Id {
		core = append(core, "id")
	}
	if got.Cookie != exp.Cookie {
		core = append(core, "cookie")
	}
	if !bytes.Equal(got.Data, exp.Data) {
		core = append(core, "data")
	}
	if int(got.DataSize) != len(exp.Data) {
		core = append(core, "data_size")
	}
	if !bodyOnly && len(exp.Data) > 0 && got.Checksum != exp.Checksum {
		core = append(core, "checksum")
	}
	if version == needle.Version3 && got.AppendAtNs != appendAtNs {
		core = append(core, "append_at_ns")
	}
	if got.IsCompressed() != exp.IsCompressed() {
		meta = append(meta, "compressed")
	}
	if got.HasName() != exp.HasName() || (exp.HasName() && !bytes.Equal(got.Name, exp.Name)) {
		meta = append(meta, "name")
	}
	if got.HasMime() != exp.HasMime() || (exp.HasMime() && !bytes.Equal(got.Mime, exp.Mime)) {
		meta = append(meta, "mime")
	}
	if got.HasLastModifiedDate() != exp.HasLastModifiedDate() ||
		(exp.HasLastModifiedDate() && got.LastModified != exp.LastModified&(1<<40-1)) {
		meta = append(meta, "last_modified")
	}
	if got.HasTtl() != exp.HasTtl() || (exp.HasTtl() && (got.Ttl == nil || *got.Ttl != *exp.Ttl)) {
		meta = append(meta, "ttl")
	}
	if got.HasPairs() != exp.HasPairs() || (exp.HasPairs() && !bytes.Equal(got.Pairs, exp.Pairs)) {
		meta = append(meta, "pairs")
	}
	return
}

// recScanner records what ScanVolumeFileFrom visits.
type recScanner struct {
	body   bool
	visits []visit
}
type visit struct {
	n      needle.Needle
	offset int64
	body   int
}

func (s *recScanner) VisitSuperBlock(super_block.SuperBlock) error { return nil }
func (s *recScanner) ReadNeedleBody() bool                         { return s.body }
func (s *recScanner) VisitNeedle(n *needle.Needle, offset int64, hdr, body []byte) error {
	c := *n
	c.Data = append([]byte{}, n.Data...)
	c.Name = append([]byte{}, n.Name...)
	c.Mime = append([]byte{}, n.Mime...)
	c.Pairs = append([]byte{}, n.Pairs...)
	s.visits = append(s.visits, visit{n: c, offset: offset, body: len(body)})
	return nil
}

// runFile appends the blobs of specs to one fresh file and checks everything that
// can be checked on it. It returns the written records and the open file (caller closes).
func (c *ctx) runFile(version needle.Version, specs []spec, label string, keep bool) ([]written, *backend.DiskFile, string) {
	r := c.r
	path := filepath.Join(r.Scratch(), fmt.Sprintf("c02-%s.dat", label))
	_ = os.Remove(path)
	f, err := os.OpenFile(path, os.O_RDWR|os.O_CREATE|os.O_TRUNC, 0644)
	r.Must(err, "create data file")
	df := backend.NewDiskFile(f)
	sb := super_block.SuperBlock{Version: version, ReplicaPlacement: &super_block.ReplicaPlacement{}, Ttl: needle.EMPTY_TTL}
	_, err = df.WriteAt(sb.Bytes(), 0)
	r.Must(err, "write super block")
	start := int64(sb.BlockSize())

	var recs []written
	next := start
	for i := range specs {
		s := specs[i]
		s.Version = int(version)
		if i%32 == 0 { // crash attribution to a chunk of 32 records (every call is also guarded by recover)
			hi := i + 32
			if hi > len(specs) {
				hi = len(specs)
			}
			r.Case(map[string]interface{}{"step": "append+decode", "version": version, "specs": specs[i:hi]})
		}
		var n, exp *needle.Needle
		if s.Upload != "" {
			var uerr error
			func() {
				defer func() {
					if p := recover(); p != nil {
						uerr = fmt.Errorf("panic: %v", p)
					}
				}()
				n, uerr = buildUpload(s)
			}()
			r.Eval(1)
			if uerr != nil || n == nil {
				r.Violation(lib.Sig{"op": "upload", "class": "entry-point-error", "input": inputClass(s), "method": s.Upload},
					map[string]interface{}{"spec": s, "error": fmt.Sprint(uerr)})
				continue
			}
			exp = cloneNeedle(n)
			r.Count("upload_records", 1)
		} else {
			n = build(s)
			exp = build(s) // independent copy: Append may touch the needle it is given
		}
		ns := uint64(1600000000000000000) + uint64(s.Id)*1000003
		n.AppendAtNs = ns
		var off uint64
		var sz types.Size
		var actual int64
		var aerr error
		func() {
			defer func() {
				if p := recover(); p != nil {
					aerr = fmt.Errorf("panic: %v", p)
				}
			}()
			off, sz, actual, aerr = n.Append(df, version)
		}()
		r.Eval(1)
		if aerr != nil {
			r.Violation(lib.Sig{"op": "append", "class": "append-error", "input": inputClass(s)},
				map[string]interface{}{"spec": s, "error": aerr.Error()})
			continue
		}
		_ = sz
		end, _, _ := df.GetStat()
		st, _ := f.Stat()
		// 8-byte aligned record, placed right after its predecessor, length as declared
		r.Eval(1)
		if int64(off)%8 != 0 || actual%8 != 0 || int64(off) != next || end != int64(off)+actual || st.Size() != end ||
			actual != needle.GetActualSize(n.Size, version) {
			r.Violation(lib.Sig{"op": "append", "class": "alignment-or-length", "input": inputClass(s), "version": fmt.Sprint(version)},
				map[string]interface{}{"spec": s, "offset": off, "expected_offset": next, "actual_size": actual,
					"get_actual_size": needle.GetActualSize(n.Size, version), "file_size": st.Size(), "stat_size": end})
		}
		next = int64(off) + actual
		w := written{s: s, exp: exp, offset: int64(off), size: n.Size, actual: actual}
		recs = append(recs, w)

		// decode through the two public read paths
		for _, how := range []string{"ReadData", "ReadBytes"} {
			got := new(needle.Needle)
			var derr error
			func() {
				defer func() {
					if p := recover(); p != nil {
						derr = fmt.Errorf("panic: %v", p)
					}
				}()
				if how == "ReadData" {
					derr = got.ReadData(df, w.offset, w.size, version)
				} else {
					var blob []byte
					blob, derr = needle.ReadNeedleBlob(df, w.offset, w.size, version)
					if derr == nil {
						derr = got.ReadBytes(blob, w.offset, w.size, version)
					}
				}
			}()
			r.Eval(1)
			if derr != nil {
				r.Violation(lib.Sig{"op": "decode", "class": "decode-error", "input": inputClass(s), "how": how, "version": fmt.Sprint(version)},
					map[string]interface{}{"spec": s, "error": derr.Error()})
				continue
			}
			if s.Upload != "" {
				r.Eval(1)
				if bad := uploadExpectation(s, got); len(bad) > 0 {
					r.Violation(lib.Sig{"op": "decode", "class": "differs-from-upload-request", "input": inputClass(s), "method": s.Upload},
						map[string]interface{}{"spec": s, "fields": bad, "how": how, "version": version})
				}
			}
			core, meta := diff(exp, got, version, ns, false)
			if len(core) > 0 {
				r.Violation(lib.Sig{"op": "decode", "class": "blob-differs", "input": inputClass(s), "how": how, "version": fmt.Sprint(version)},
					map[string]interface{}{"spec": s, "fields": core, "meta_fields": meta})
			} else if len(meta) > 0 {
				cls := "metadata-differs"
				if s.DataLen == 0 {
					cls = "metadata-dropped"
				}
				r.Violation(lib.Sig{"op": "decode", "class": cls, "input": inputClass(s)},
					map[string]interface{}{"spec": s, "fields": meta, "how": how, "version": version})
			}
		}
		r.Nontrivial(fmt.Sprintf("v%d/f%02x/n%d/m%d/d%d/p%d/%s%v", version, s.Flags, s.NameLen, s.MimeLen, s.DataLen, s.PairsLen, s.Upload, s.Gzip))
		r.Count(fmt.Sprintf("records_v%d", version), 1)
		if s.DataLen == 0 {
			r.Count("records_empty_payload", 1)
		}
	}

	// scanning visits exactly the written records in order (with and without bodies)
	for _, body := range []bool{true, false} {
		r.Case(map[string]interface{}{"step": "scan", "file": label, "body": body, "records": len(recs)})
		sc := &recScanner{body: body}
		var serr error
		func() {
			defer func() {
				if p := recover(); p != nil {
					serr = fmt.Errorf("panic: %v", p)
				}
			}()
			serr = storage.ScanVolumeFileFrom(version, df, start, sc)
		}()
		r.Eval(1)
		detail := func(extra map[string]interface{}) map[string]interface{} {
			extra["file"] = label
			extra["version"] = version
			extra["specs"] = specsOf(recs, 40)
			extra["with_body"] = body
			return extra
		}
		if serr != nil {
			r.Violation(lib.Sig{"op": "scan", "class": "scan-error", "version": fmt.Sprint(version)}, detail(map[string]interface{}{"error": serr.Error()}))
			continue
		}
		if len(sc.visits) != len(recs) {
			r.Violation(lib.Sig{"op": "scan", "class": "visit-count", "version": fmt.Sprint(version)},
				detail(map[string]interface{}{"visited": len(sc.visits), "written": len(recs)}))
			continue
		}
		for i, v := range sc.visits {
			w := recs[i]
			r.Eval(1)
			if v.offset != w.offset || v.n.Id != w.exp.Id || v.n.Cookie != w.exp.Cookie || v.n.Size != w.size {
				r.Violation(lib.Sig{"op": "scan", "class": "sequence-differs", "version": fmt.Sprint(version)},
					detail(map[string]interface{}{"index": i, "visited_offset": v.offset, "written_offset": w.offset,
						"visited_id": uint64(v.n.Id), "written_id": uint64(w.exp.Id), "visited_size": v.n.Size, "written_size": w.size}))
				break
			}
			if body {
				ns := uint64(1600000000000000000) + uint64(w.s.Id)*1000003
				core, meta := diff(w.exp, &v.n, version, ns, true)
				if len(core) > 0 || (len(meta) > 0 && w.s.DataLen > 0) {
					r.Violation(lib.Sig{"op": "scan", "class": "visited-blob-differs", "input": inputClass(w.s), "version": fmt.Sprint(version)},
						map[string]interface{}{"spec": w.s, "fields": core, "meta_fields": meta, "index": i})
					break
				}
			}
			r.Count("scan_visits", 1)
		}
	}
	if keep {
		return recs, df, path
	}
	df.Close()
	_ = os.Remove(path)
	return recs, nil, ""
}

func specsOf(recs []written, max int) []spec {
	var out []spec
	for i, w := range recs {
		if i >= max {
			break
		}
		out = append(out, w.s)
	}
	return out
}

// flipRecord flips every bit of every data byte of one record (in the blob read
// from the file) and requires an error from ReadBytes. One bit per byte is also
// flipped in the file itself and read back with ReadData.
func (c *ctx) flipRecord(df *backend.DiskFile, version needle.Version, w written, rng *rand.Rand) {
	r := c.r
	blob, err := needle.ReadNeedleBlob(df, w.offset, w.size, version)
	r.Must(err, "ReadNeedleBlob for flipping")
	dataStart := types.NeedleHeaderSize + 4
	orig := append([]byte{}, w.exp.Data...)
	r.Case(map[string]interface{}{"step": "flip", "spec": w.s})
	try := func(b []byte) (n *needle.Needle, err error) {
		n = new(needle.Needle)
		defer func() {
			if p := recover(); p != nil {
				err = fmt.Errorf("panic: %v", p)
			}
		}()
		err = n.ReadBytes(b, w.offset, w.size, version)
		return
	}
	for i := 0; i < len(orig); i++ {
		for bit := uint(0); bit < 8; bit++ {
			blob[dataStart+i] ^= 1 << bit
			n, err := try(blob)
			blob[dataStart+i] ^= 1 << bit
			r.Eval(1)
			r.Count("data_bit_flips", 1)
			if err == nil {
				r.Violation(lib.Sig{"op": "read-corrupted", "class": "flipped-data-returned", "how": "ReadBytes", "version": fmt.Sprint(version)},
					map[string]interface{}{"spec": w.s, "byte": i, "bit": bit, "returned_equals_original": bytes.Equal(n.Data, orig)})
				return
			}
			r.Count("data_bit_flips_detected", 1)
		}
		// the same through the file
		bit := uint(rng.Intn(8))
		pos := w.offset + int64(dataStart+i)
		_, werr := df.File.WriteAt([]byte{orig[i] ^ (1 << bit)}, pos)
		r.Must(werr, "flip byte in file")
		n := new(needle.Needle)
		var rerr error
		func() {
			defer func() {
				if p := recover(); p != nil {
					rerr = fmt.Errorf("panic: %v", p)
				}
			}()
			rerr = n.ReadData(df, w.offset, w.size, version)
		}()
		_, werr = df.File.WriteAt([]byte{orig[i]}, pos)
		r.Must(werr, "restore byte in file")
		r.Eval(1)
		r.Count("file_byte_flips", 1)
		if rerr == nil {
			r.Violation(lib.Sig{"op": "read-corrupted", "class": "flipped-data-returned", "how": "ReadData", "version": fmt.Sprint(version)},
				map[string]interface{}{"spec": w.s, "byte": i, "bit": bit})
			return
		}
	}
	// recorded only: flips in the header size field, the data-size field, the flags
	// byte and (if present) the name-length byte
	positions := []int{}
	for p := types.CookieSize + types.NeedleIdSize; p < types.NeedleHeaderSize+4; p++ {
		positions = append(positions, p)
	}
	positions = append(positions, dataStart+len(orig)) // flags
	if w.exp.HasName() {
		positions = append(positions, dataStart+len(orig)+1)
	}
	for _, p := range positions {
		if p >= len(blob) {
			continue
		}
		for bit := uint(0); bit < 8; bit++ {
			blob[p] ^= 1 << bit
			n, err := try(blob)
			blob[p] ^= 1 << bit
			switch {
			case err != nil && len(err.Error()) > 6 && err.Error()[:6] == "panic:":
				r.Count("recorded.header_flip_panic", 1)
			case err != nil:
				r.Count("recorded.header_flip_error", 1)
			case bytes.Equal(n.Data, orig):
				r.Count("recorded.header_flip_silent_same_data", 1)
			default:
				r.Count("recorded.header_flip_silent_different_data", 1)
			}
		}
	}
	// after all flips the record must still decode
	n, err := try(blob)
	if err != nil || !bytes.Equal(n.Data, orig) {
		r.Inconclusive("flip harness did not restore the record")
	}
}

// volumeCorruption writes blobs through a real Store, flips one data bit per blob in
// the .dat while the volume is closed, reopens and reads through Store.ReadVolumeNeedle.
func (c *ctx) volumeCorruption(rng *rand.Rand, nblobs int) {
	r := c.r
	dir := r.SubDir("c02vol")
	st, stop := lib.OpenStoreStoppable(dir, storage.NeedleMapInMemory)
	r.Must(st.AddVolume(1, "", storage.NeedleMapInMemory, "000", "", 0, 0, types.HardDriveType), "AddVolume")
	type wb struct {
		spec lib.BlobSpec
	}
	var blobs []lib.BlobSpec
	for i := 0; i < nblobs; i++ {
		b := lib.BlobSpec{Key: uint64(100 + i), Cookie: 0x11223344, Data: fill(rng, 1+rng.Intn(300)), Name: fmt.Sprintf("f%d", i), Mime: "a/b"}
		if i%3 == 0 {
			b.Pairs = map[string]string{"k": fmt.Sprint(i)}
		}
		_, err := st.WriteVolumeNeedle(1, lib.MakeNeedle(b, uint64(time.Now().Unix())), false)
		r.Must(err, "WriteVolumeNeedle")
		blobs = append(blobs, b)
	}
	st.Close()
	stop()
	ents, err := lib.ReadIdxFile(filepath.Join(dir, "1.idx"))
	r.Must(err, "read idx")
	if len(ents) != nblobs {
		r.Inconclusive(fmt.Sprintf("idx has %d entries, wrote %d", len(ents), nblobs))
		return
	}
	f, err := os.OpenFile(filepath.Join(dir, "1.dat"), os.O_RDWR, 0644)
	r.Must(err, "open dat")
	type fl struct {
		pos int64
		bit uint
	}
	flips := make([]fl, nblobs)
	for i, e := range ents {
		p := e.Offset + int64(types.NeedleHeaderSize) + 4 + int64(rng.Intn(len(blobs[i].Data)))
		bit := uint(rng.Intn(8))
		var one [1]byte
		_, err = f.ReadAt(one[:], p)
		r.Must(err, "read byte")
		one[0] ^= 1 << bit
		_, err = f.WriteAt(one[:], p)
		r.Must(err, "write byte")
		flips[i] = fl{p, bit}
	}
	f.Close()
	st, stop = lib.OpenStoreStoppable(dir, storage.NeedleMapInMemory)
	defer func() { st.Close(); stop() }()
	if st.GetVolume(1) == nil {
		r.Inconclusive("volume with corrupted data bytes did not load (nothing to read)")
		return
	}
	for i, b := range blobs {
		n := &needle.Needle{Id: types.NeedleId(b.Key), Cookie: types.Cookie(b.Cookie)}
		r.Case(map[string]interface{}{"step": "volume-read-corrupted", "key": b.Key, "pos": flips[i].pos, "bit": flips[i].bit})
		_, err := st.ReadVolumeNeedle(1, n, nil)
		r.Eval(1)
		r.Count("volume_reads_of_corrupted_blobs", 1)
		if err == nil {
			r.Violation(lib.Sig{"op": "read-corrupted", "class": "flipped-data-returned", "how": "Store.ReadVolumeNeedle"},
				map[string]interface{}{"blob": b, "file_pos": flips[i].pos, "bit": flips[i].bit, "returned_equals_original": bytes.Equal(n.Data, b.Data)})
		}
	}
}

var boundary = []int{0, 1, 7, 8, 9, 254, 255}
var ttls = []string{"1m", "3m", "59m", "1h", "24h", "5d", "6w", "7M", "8y", "255y", "255m"}
var lms = []uint64{1, 1500000000, 1<<32 - 1, 1 << 32, 1<<40 - 1}

func randomSpec(rng *rand.Rand, id uint64) spec {
	s := spec{Id: id, Cookie: rng.Uint32(), Flags: byte(rng.Intn(64)), Fill: rng.Int63()}
	switch rng.Intn(10) {
	case 0:
		s.DataLen = 0
	case 1, 2:
		s.DataLen = rng.Intn(64)
	case 3:
		s.DataLen = 4096 + rng.Intn(3) - 1
	case 4:
		s.DataLen = 8192 + rng.Intn(17) - 8
	default:
		s.DataLen = rng.Intn(6000)
	}
	if s.Flags&needle.FlagHasName != 0 {
		if rng.Intn(3) == 0 {
			s.NameLen = boundary[rng.Intn(len(boundary))]
		} else {
			s.NameLen = rng.Intn(256)
		}
	}
	if s.Flags&needle.FlagHasMime != 0 {
		if rng.Intn(3) == 0 {
			s.MimeLen = boundary[rng.Intn(len(boundary))]
		} else {
			s.MimeLen = rng.Intn(256)
		}
	}
	if s.Flags&needle.FlagHasPairs != 0 {
		switch rng.Intn(8) {
		case 0:
			s.PairsLen = 65535
		case 1:
			s.PairsLen = 255 + rng.Intn(3)
		case 2:
			s.PairsLen = 32768 + rng.Intn(3) - 1
		default:
			s.PairsLen = 2 + rng.Intn(2000)
		}
	}
	if s.Flags&needle.FlagHasLastModifiedDate != 0 {
		if rng.Intn(2) == 0 {
			s.Lm = lms[rng.Intn(len(lms))]
		} else {
			s.Lm = uint64(rng.Int63n(1 << 40))
		}
	}
	if s.Flags&needle.FlagHasTtl != 0 {
		s.Ttl = ttls[rng.Intn(len(ttls))]
	}
	return s
}

func main() {
	r := lib.Start("C02", "exploration")
	r.SetRule("blobs = (needle version 2|3) x flag set (compressed,name,mime,lastModified,ttl,pairs; a field is present iff its flag is set) x name/mime length x data length x pairs length; each is appended with needle.Append to a real DiskFile, decoded with ReadData and ReadNeedleBlob+ReadBytes and compared field-wise, record offsets/lengths checked for 8-byte alignment and contiguity, every file walked with ScanVolumeFileFrom (with and without bodies) and the visit sequence compared with the write sequence; single-bit flips at every bit of every data byte of sampled records must give an error; additionally needles built by the upload entry point needle.CreateNeedleFromRequest from real PUT / multipart POST requests (file name and mime lengths 0,1,254,255,256,257,300, pair headers of 20 and 65534..65537 JSON bytes, ts/ttl parameters, gzip) go through the same append/decode/scan checks and are compared with what the request carried. distinct = distinct (version, flags, name len, mime len, data len, pairs len); non-trivial = appended and decoded back")
	r.Assume("only flips inside the data bytes are decisive (the statement promises detection of altered data bytes); flips in size/length/flags bytes are recorded as statistics")
	r.Assume("LastModified is compared on its stored 40 bits; a TTL flag always comes with a non-empty TTL and a pairs flag with PairsSize=len(Pairs), as CreateNeedleFromRequest produces them")
	c := &ctx{r: r}

	if r.Replay != "" {
		var d struct {
			Spec    *spec  `json:"spec"`
			Specs   []spec `json:"specs"`
			Version int    `json:"version"`
		}
		r.Must(r.LoadReplay(&d), "load replay")
		var specs []spec
		if d.Spec != nil {
			specs = []spec{*d.Spec}
			d.Version = d.Spec.Version
		} else {
			specs = d.Specs
		}
		if d.Version == 0 {
			d.Version = 3
		}
		recs, df, path := c.runFile(needle.Version(d.Version), specs, "replay", true)
		rng := r.SubRng("replay")
		for _, w := range recs {
			if w.s.DataLen > 0 && w.s.DataLen <= 4096 {
				c.flipRecord(df, needle.Version(d.Version), w, rng)
			}
		}
		df.Close()
		_ = os.Remove(path)
		r.Finish(0)
	}

	// ---- Part 1: the grid -------------------------------------------------
	var dataLens []int
	for d := 0; d <= 40; d++ {
		dataLens = append(dataLens, d)
	}
	dataLens = append(dataLens, 255, 256, 257, 4095, 4096, 4097)
	type nm struct {
		on  bool
		len int
	}
	var opts []nm
	opts = append(opts, nm{false, 0})
	for _, l := range boundary {
		opts = append(opts, nm{true, l})
	}
	flagsSeen := map[byte]bool{}
	var id uint64 = 1
	var flipPool []struct {
		v needle.Version
		s spec
	}
	grng := r.SubRng("c02-grid")
	for _, version := range []needle.Version{needle.Version2, needle.Version3} {
		for _, dl := range dataLens {
			var specs []spec
			for _, no := range opts {
				for _, mo := range opts {
					for rest := 0; rest < 16; rest++ {
						var fl byte
						if no.on {
							fl |= needle.FlagHasName
						}
						if mo.on {
							fl |= needle.FlagHasMime
						}
						if rest&1 != 0 {
							fl |= needle.FlagIsCompressed
						}
						if rest&2 != 0 {
							fl |= needle.FlagHasLastModifiedDate
						}
						if rest&4 != 0 {
							fl |= needle.FlagHasTtl
						}
						if rest&8 != 0 {
							fl |= needle.FlagHasPairs
						}
						s := spec{Id: id, Cookie: uint32(id*2654435761) | 1, Flags: fl, DataLen: dl, NameLen: no.len, MimeLen: mo.len, Fill: int64(id)}
						if fl&needle.FlagHasLastModifiedDate != 0 {
							s.Lm = lms[int(id)%len(lms)]
						}
						if fl&needle.FlagHasTtl != 0 {
							s.Ttl = ttls[int(id)%len(ttls)]
						}
						if fl&needle.FlagHasPairs != 0 {
							s.PairsLen = 7 + int(id)%11
						}
						id++
						specs = append(specs, s)
						flagsSeen[fl] = true
					}
				}
			}
			c.runFile(version, specs, fmt.Sprintf("grid-v%d-d%d", version, dl), false)
			if len(specs) > 0 && dl == 9 {
				r.Sample(map[string]interface{}{"grid_spec": specs[len(specs)/2], "version": version})
			}
			if r.Violations() > 30 {
				break
			}
		}
	}
	r.Note("grid_flag_combinations_covered", len(flagsSeen))
	r.Note("grid_data_lengths", len(dataLens))
	r.Note("grid_name_mime_lengths", boundary)
	_ = grng

	// ---- Part 2: random blobs, Part 3: bit flips ------------------------------
	nfiles, perFile := r.Pick(8, 60), r.Pick(150, 300)
	flipBudget := r.Pick(60, 500)
	flipMax := r.Pick(256, 4096)
	rng := r.SubRng("c02-random")
	flipped := 0
	for fi := 0; fi < nfiles; fi++ {
		version := needle.Version3
		if fi%2 == 1 {
			version = needle.Version2
		}
		var specs []spec
		for i := 0; i < perFile; i++ {
			s := randomSpec(rng, id)
			id++
			specs = append(specs, s)
		}
		recs, df, path := c.runFile(version, specs, fmt.Sprintf("rand-%d", fi), true)
		if fi == 0 && len(specs) > 0 {
			r.Sample(map[string]interface{}{"random_spec": specs[0], "version": version})
		}
		// sample records for flipping from this file
		want := flipBudget/nfiles + 1
		perm := rng.Perm(len(recs))
		got := 0
		for _, pi := range perm {
			w := recs[pi]
			if w.s.DataLen == 0 || w.s.DataLen > flipMax {
				continue
			}
			if got >= want || flipped >= flipBudget {
				break
			}
			c.flipRecord(df, version, w, rng)
			got++
			flipped++
			r.Count("flip_records", 1)
			if flipped == 1 {
				r.Sample(map[string]interface{}{"flipped_record_spec": w.s, "version": version, "bits": w.s.DataLen * 8})
			}
		}
		df.Close()
		_ = os.Remove(path)
		_ = flipPool
		if r.Violations() > 30 {
			break
		}
	}
	// flips on grid-shaped small records too (data lengths 1..40, both versions)
	for _, version := range []needle.Version{needle.Version2, needle.Version3} {
		var specs []spec
		for dl := 1; dl <= 40; dl++ {
			s := spec{Id: id, Cookie: 7, Flags: byte((dl * 7) % 64), DataLen: dl, Fill: int64(id)}
			if s.Flags&needle.FlagHasName != 0 {
				s.NameLen = boundary[dl%len(boundary)]
			}
			if s.Flags&needle.FlagHasMime != 0 {
				s.MimeLen = boundary[(dl/2)%len(boundary)]
			}
			if s.Flags&needle.FlagHasPairs != 0 {
				s.PairsLen = 9
			}
			if s.Flags&needle.FlagHasTtl != 0 {
				s.Ttl = "3m"
			}
			if s.Flags&needle.FlagHasLastModifiedDate != 0 {
				s.Lm = 1500000000
			}
			id++
			specs = append(specs, s)
		}
		recs, df, path := c.runFile(version, specs, fmt.Sprintf("smallflip-v%d", version), true)
		for _, w := range recs {
			c.flipRecord(df, version, w, rng)
			r.Count("flip_records", 1)
		}
		df.Close()
		_ = os.Remove(path)
	}

	// ---- Part 5: what the upload entry point builds --------------------------------
	// real http.Requests through needle.CreateNeedleFromRequest (ParseUpload): file name and
	// mime lengths around the 256-byte limit, pair headers around the 64 KiB limit, ts/ttl
	// parameters, gzip; then Append / decode / scan exactly as for the other records
	{
		lens := []int{0, 1, 254, 255, 256, 257, 300}
		dls := []int{1, 9, 300, 4096, 40}
		var specs []spec
		add := func(sp spec) {
			sp.Id, sp.Cookie, sp.Fill = id, uint32(id*2654435761)|1, int64(id)
			if id%2 == 0 {
				sp.Lm = 1500000000 + id
			}
			if id%3 == 0 {
				sp.Ttl = ttls[int(id)%len(ttls)]
			}
			id++
			specs = append(specs, sp)
		}
		for i, nl := range lens {
			for j, ml := range lens {
				add(spec{Upload: "POST", NameLen: nl, MimeLen: ml, DataLen: dls[(i+j)%len(dls)]})
			}
			for _, pl := range []int{20, 65534, 65535, 65536, 65537} {
				add(spec{Upload: "POST", NameLen: nl, MimeLen: lens[(i+3)%len(lens)], PairsLen: pl, DataLen: dls[i%len(dls)]})
			}
			add(spec{Upload: "PUT", MimeLen: nl, DataLen: dls[i%len(dls)]})
			add(spec{Upload: "PUT", MimeLen: nl, DataLen: 2000, Gzip: true})
			add(spec{Upload: "PUT", MimeLen: nl, PairsLen: 65535, DataLen: 17})
			add(spec{Upload: "PUT", MimeLen: nl, PairsLen: 65536, DataLen: 17})
			add(spec{Upload: "POST", NameLen: nl, MimeLen: nl, DataLen: 1000, Gzip: true})
			add(spec{Upload: "POST", NameLen: nl, MimeLen: nl, DataLen: 0})
		}
		for _, version := range []needle.Version{needle.Version2, needle.Version3} {
			c.runFile(version, specs, fmt.Sprintf("upload-v%d", version), false)
		}
		r.Sample(map[string]interface{}{"upload_spec": specs[len(specs)/2]})
		r.Note("upload_name_mime_lengths_sent", lens)
	}

	// ---- Part 4: through a real volume --------------------------------------
	c.volumeCorruption(r.SubRng("c02-volume"), r.Pick(40, 300))

	if r.Counter("records_v2") == 0 || r.Counter("records_v3") == 0 || r.Counter("data_bit_flips") == 0 ||
		r.Counter("scan_visits") == 0 || r.Counter("volume_reads_of_corrupted_blobs") == 0 || r.Counter("upload_records") == 0 {
		r.Inconclusive("a part of the check observed nothing")
	}
	if len(flagsSeen) != 64 {
		r.Inconclusive(fmt.Sprintf("only %d of 64 flag combinations generated", len(flagsSeen)))
	}
	r.Finish(1000)
}
