// C35 — Clients' volume location cache mirrors master updates.
//
// A real wdclient.MasterClient is connected to the harness fake master
// (lib.FakeMaster) over the real KeepConnected gRPC stream; scripted
// VolumeLocation add/remove messages are the only way the client's vidMap is
// changed (one applier goroutine, as in production).
//
//	sequential: random notification sequences, a sentinel message as barrier (the
//	            stream is ordered), then every lookup API is compared with a
//	            reference set and the same-data-center-first rule;
//	concurrent: reader goroutines using every lookup API (and iterating the
//	            returned slices the way callers do) while the applier works
//	            through add/delete storms; every read must equal the reference
//	            state after some prefix of the notifications that is possible
//	            between its call and its return; a sample of the history is also
//	            checked with porcupine against a per-volume set model;
//	reconnect:  the stream is dropped, the client rebuilds its map from the replay;
//	            set and ordering rule are checked again.
//
// Race reports whose both stacks are inside weed/wdclient are decisive.
package main

import (
	"fmt"
	"math/rand"
	"os"
	"os/exec"
	"path/filepath"
	"runtime"
	"sort"
	"strconv"
	"strings"
	"sync"
	"sync/atomic"
	"time"

	"github.com/anishathalye/porcupine"
	"google.golang.org/grpc"

	"github.com/chrislusf/seaweedfs/weed/pb/master_pb"
	"github.com/chrislusf/seaweedfs/weed/wdclient"

	"verifharness/lib"
)

// ---------------------------------------------------------------- servers (urls)

// A location is identified by its Url (the statement's "locations currently added"; removal
// notifications name the Url too). PublicUrl and DataCenter vary independently of it: two
// servers behind one gateway share a PublicUrl, some announce none, one re-announces itself
// with another PublicUrl (Public2).
type server struct {
	Url, Public, Public2, DC string
}

var servers = []server{
	{"10.0.0.1:8080", "gateway.example:80", "gateway.example:80", "dc2"},
	{"10.0.0.2:8080", "gateway.example:80", "gateway.example:80", "dc1"},
	{"10.0.0.3:8080", "", "", ""},
	{"10.0.0.4:8080", "", "late-pub-10.0.0.4:8080", "dc1"},
	{"10.0.0.5:8080", "pub-10.0.0.5:8080", "other-pub-10.0.0.5:8080", "dc3"},
	{"10.0.0.6:8080", "pub-10.0.0.6:8080", "pub-10.0.0.6:8080", "dc2"},
}

// entryOK: the fields of a returned Location belong to one server (not torn, not foreign).
func entryOK(l wdclient.Location) bool {
	si := serverIndex(l.Url)
	return si >= 0 && (l.PublicUrl == servers[si].Public || l.PublicUrl == servers[si].Public2) && l.DataCenter == servers[si].DC
}

func serverIndex(url string) int {
	for i, s := range servers {
		if s.Url == url {
			return i
		}
	}
	return -1
}

// ---------------------------------------------------------------- client under test

type client struct {
	r    *lib.Run
	name string
	dc   string
	mc   *wdclient.MasterClient
	fm   *lib.FakeMaster
	// sentinel bookkeeping
	nSentinel  uint32
	reconnects int
}

const sentinelBase = 900000000

var clientSeq int32

func newClientOwn(r *lib.Run, dc string) *client {
	fm := ownMaster(r)
	return newClient(r, fm, dc, []string{fm.Addr()})
}

// ownMaster starts a fake master of its own for one client: clients that share a master address
// share one cached gRPC connection (pb.WithCachedGrpcClient), which the pb layer closes for all of them
// after a few stream errors of any of them.
func ownMaster(r *lib.Run) *lib.FakeMaster {
	fm, err := lib.NewFakeMaster()
	r.Must(err, "start fake master")
	return fm
}

func newClient(r *lib.Run, fm *lib.FakeMaster, dc string, masters []string) *client {
	n := atomic.AddInt32(&clientSeq, 1)
	c := &client{r: r, name: fmt.Sprintf("c35-%d-%s", n, dc), dc: dc, fm: fm}
	c.mc = wdclient.NewMasterClient(grpc.WithInsecure(), c.name, "localhost", 0, dc, masters)
	go c.mc.KeepConnectedToMaster()
	if !fm.WaitSession(c.name, 1, 60*time.Second) {
		r.Inconclusive("client did not connect to the fake master")
		r.Finish(0)
	}
	c.mc.WaitUntilConnected() // the way every command uses the client
	return c
}

func (c *client) send(msg *master_pb.VolumeLocation) {
	c.r.Must(c.fm.Send(c.name, msg, true), "fake master send")
	c.r.Count("messages_sent", 1)
}

// barrier sends a sentinel (fresh volume id, unique url) and waits until a lookup
// sees it: the stream is ordered and there is one applier, so every earlier
// message has been applied by then. The wait is bounded by a generous watchdog
// that only ever leads to "inconclusive".
func (c *client) barrier() {
	c.nSentinel++
	vid := uint32(sentinelBase) + c.nSentinel
	url := fmt.Sprintf("sentinel-%d", c.nSentinel)
	c.r.Must(c.fm.Send(c.name, &master_pb.VolumeLocation{Url: url, NewVids: []uint32{vid}}, false), "fake master sentinel")
	deadline := time.Now().Add(60 * time.Second)
	for i := 0; ; i++ {
		if locs, ok := c.mc.GetLocations(vid); ok && len(locs) == 1 && locs[0].Url == url {
			c.r.Count("barriers", 1)
			return
		}
		if i%64 == 63 {
			if time.Now().After(deadline) {
				c.r.Inconclusive("sentinel never became visible (client stuck?)")
				c.r.Finish(0)
			}
			time.Sleep(50 * time.Microsecond)
		} else {
			runtime.Gosched()
		}
	}
}

// ---------------------------------------------------------------- reference + sequential oracle

type refState map[uint32][]int // vid -> server indexes currently added (insertion order, informative only)

func (s refState) add(vid uint32, si int) {
	for _, x := range s[vid] {
		if x == si {
			return
		}
	}
	s[vid] = append(s[vid], si)
}
func (s refState) del(vid uint32, si int) {
	l := s[vid]
	for i, x := range l {
		if x == si {
			s[vid] = append(l[:i:i], l[i+1:]...)
			return
		}
	}
}

type smsg struct {
	Server int      `json:"server"`
	New    []uint32 `json:"new,omitempty"`
	Del    []uint32 `json:"del,omitempty"`
	Alt    bool     `json:"alt_public_url,omitempty"` // announced with the server's other PublicUrl
}

func (m smsg) pb() *master_pb.VolumeLocation {
	s := servers[m.Server]
	pub := s.Public
	if m.Alt {
		pub = s.Public2
	}
	return &master_pb.VolumeLocation{Url: s.Url, PublicUrl: pub, DataCenter: s.DC, NewVids: m.New, DeletedVids: m.Del}
}

func (s refState) apply(m smsg) {
	for _, v := range m.New {
		s.add(v, m.Server)
	}
	for _, v := range m.Del {
		s.del(v, m.Server)
	}
}

// compareSet classifies got (urls, possibly with duplicates) against the reference set.
func compareSet(got []string, want []int) string {
	seen := map[string]int{}
	for _, u := range got {
		seen[u]++
		if seen[u] > 1 {
			return "duplicate"
		}
	}
	for _, si := range want {
		if seen[servers[si].Url] == 0 {
			return "missing"
		}
	}
	if len(seen) != len(want) {
		return "extra"
	}
	return ""
}

// sameDcFirst: every location of the client's own data center precedes every other one.
func sameDcFirst(urls []string, dc string) bool {
	if dc == "" {
		return true
	}
	seenOther := false
	for _, u := range urls {
		si := serverIndex(u)
		if si < 0 {
			continue
		}
		if servers[si].DC == dc {
			if seenOther {
				return false
			}
		} else {
			seenOther = true
		}
	}
	return true
}

func stripFid(urls []string, fid string) []string {
	var out []string
	for _, u := range urls {
		u = strings.TrimPrefix(u, "http://")
		u = strings.TrimSuffix(u, "/"+fid)
		out = append(out, u)
	}
	return out
}

// checkAll compares every lookup API for the given vids at a quiescent point.
func (c *client) checkAll(ref refState, vids []uint32, after string, detail func() interface{}) bool {
	r := c.r
	ok := true
	viol := func(api, class string, vid uint32, got interface{}) {
		d := map[string]interface{}{"case": detail(), "vid": vid, "api": api, "got": got, "want_servers": ref[vid], "client_dc": c.dc}
		if r.Violation(lib.Sig{"mode": "sequential", "api": api, "class": class, "after": after}, d) {
			ok = false
		}
	}
	for _, vid := range vids {
		want := ref[vid]
		// GetLocations
		locs, found := c.mc.GetLocations(vid)
		var urls []string
		for _, l := range locs {
			urls = append(urls, l.Url)
			if !entryOK(l) {
				viol("GetLocations", "torn-or-foreign-entry", vid, locs)
			}
		}
		r.Eval(1)
		if cl := compareSet(urls, want); cl != "" {
			viol("GetLocations", cl, vid, urls)
		}
		if len(want) > 0 && !found {
			viol("GetLocations", "not-found-although-added", vid, urls)
		}
		// LookupVolumeServerUrl
		surls, err := c.mc.LookupVolumeServerUrl(strconv.Itoa(int(vid)))
		r.Eval(1)
		if cl := compareSet(surls, want); cl != "" {
			viol("LookupVolumeServerUrl", cl, vid, surls)
		} else if !sameDcFirst(surls, c.dc) {
			viol("LookupVolumeServerUrl", "same-dc-not-first", vid, surls)
		}
		if err != nil && len(want) > 0 {
			viol("LookupVolumeServerUrl", "not-found-although-added", vid, err.Error())
		}
		// LookupFileId
		fid := fmt.Sprintf("%d,01637037d6", vid)
		furls, _ := c.mc.LookupFileId(fid)
		r.Eval(1)
		if cl := compareSet(stripFid(furls, fid), want); cl != "" {
			viol("LookupFileId", cl, vid, furls)
		} else if !sameDcFirst(stripFid(furls, fid), c.dc) {
			viol("LookupFileId", "same-dc-not-first", vid, furls)
		}
		// GetVidLocations
		vlocs, _ := c.mc.GetVidLocations(strconv.Itoa(int(vid)))
		var vurls []string
		for _, l := range vlocs {
			vurls = append(vurls, l.Url)
		}
		r.Eval(1)
		if cl := compareSet(vurls, want); cl != "" {
			viol("GetVidLocations", cl, vid, vurls)
		}
		if len(want) > 1 {
			r.Count("sequential_lookups_multi_location", 1)
		}
	}
	return ok
}

func genSequence(rng *rand.Rand, vids []uint32, n int) []smsg {
	var out []smsg
	for i := 0; i < n; i++ {
		m := smsg{Server: rng.Intn(len(servers)), Alt: rng.Intn(5) == 0}
		for _, v := range vids {
			switch x := rng.Intn(10); {
			case x < 5:
				m.New = append(m.New, v)
			case x < 8:
				m.Del = append(m.Del, v)
			}
		}
		if len(m.New)+len(m.Del) == 0 {
			m.New = []uint32{vids[rng.Intn(len(vids))]}
		}
		out = append(out, m)
	}
	return out
}

var vidCounter uint32 = 1000

func freshVids(n int) []uint32 {
	var out []uint32
	for i := 0; i < n; i++ {
		out = append(out, atomic.AddUint32(&vidCounter, 1))
	}
	return out
}

func (c *client) runSequential(seqNo int, rng *rand.Rand) {
	r := c.r
	vids := freshVids(1 + rng.Intn(3))
	seq := genSequence(rng, vids, 1+rng.Intn(9))
	stepwise := rng.Intn(4) == 0
	r.Case(map[string]interface{}{"mode": "sequential", "client_dc": c.dc, "vids": vids, "seq": seq})
	ref := refState{}
	detail := func() interface{} {
		return map[string]interface{}{"mode": "sequential", "client_dc": c.dc, "vids": vids, "seq": seq}
	}
	for i, m := range seq {
		c.send(m.pb())
		ref.apply(m)
		if stepwise || i == len(seq)-1 {
			c.barrier()
			if !c.checkAll(ref, vids, c.afterLabel(), detail) {
				return
			}
		}
	}
	key := fmt.Sprintf("seq/%s/%v", c.dc, seq)
	for i := range seq { // normalise vids so that equal shapes count once
		_ = i
	}
	r.Nontrivial(key)
	if seqNo < 2 {
		r.Sample(map[string]interface{}{"mode": "sequential", "client_dc": c.dc, "vids": vids, "seq": seq, "final_reference": ref})
	}
}

func (c *client) afterLabel() string {
	if c.reconnects > 0 {
		return "reconnect"
	}
	return "initial"
}

// ---------------------------------------------------------------- concurrent mode

var clock int64

func tick() int64 { return atomic.AddInt64(&clock, 1) }

type wop struct {
	Vid    int   `json:"vid"` // index into the run's vids
	Server int   `json:"server"`
	Add    bool  `json:"add"`
	Call   int64 `json:"call"`
	Ret    int64 `json:"ret"`
}

type rop struct {
	Reader int      `json:"reader"`
	Api    string   `json:"api"`
	Vid    int      `json:"vid"`
	Call   int64    `json:"call"`
	Ret    int64    `json:"ret"`
	Urls   []string `json:"urls"`
	Torn   bool     `json:"torn,omitempty"`
}

func maskOf(urls []string) (mask uint32, dup bool, foreign bool) {
	for _, u := range urls {
		si := serverIndex(u)
		if si < 0 {
			foreign = true
			continue
		}
		if mask&(1<<uint(si)) != 0 {
			dup = true
		}
		mask |= 1 << uint(si)
	}
	return
}

var apis = []string{"GetLocations", "LookupVolumeServerUrl", "LookupFileId", "GetVidLocations"}

// read performs one lookup the way callers do (holding and walking the returned slice).
func (c *client) read(api string, vid uint32, yield bool) (urls []string, torn bool) {
	switch api {
	case "GetLocations":
		locs, _ := c.mc.GetLocations(vid)
		for i := range locs {
			l := locs[i]
			if !entryOK(l) {
				torn = true
			}
			urls = append(urls, l.Url)
			if yield {
				runtime.Gosched()
			}
		}
	case "LookupVolumeServerUrl":
		urls, _ = c.mc.LookupVolumeServerUrl(strconv.Itoa(int(vid)))
	case "LookupFileId":
		fid := fmt.Sprintf("%d,01637037d6", vid)
		f, _ := c.mc.LookupFileId(fid)
		urls = stripFid(f, fid)
	case "GetVidLocations":
		locs, _ := c.mc.GetVidLocations(strconv.Itoa(int(vid)))
		for i := range locs {
			l := locs[i]
			if !entryOK(l) {
				torn = true
			}
			urls = append(urls, l.Url)
			if yield {
				runtime.Gosched()
			}
		}
	}
	return
}

type setIn struct {
	Kind   int // 0 add 1 remove 2 read
	Server int
}

var setModel = porcupine.Model{
	Init: func() interface{} { return uint32(0) },
	Step: func(state, input, output interface{}) (bool, interface{}) {
		s := state.(uint32)
		in := input.(setIn)
		switch in.Kind {
		case 0:
			return true, s | 1<<uint(in.Server)
		case 1:
			return true, s &^ (1 << uint(in.Server))
		}
		return output.(uint32) == s, s
	},
	Equal: func(a, b interface{}) bool { return a.(uint32) == b.(uint32) },
}

func (c *client) runConcurrent(runNo int, rng *rand.Rand, nReaders, nMsgs int) {
	r := c.r
	vids := freshVids(3)
	r.Case(map[string]interface{}{"mode": "concurrent", "run": runNo, "client_dc": c.dc, "vids": vids})
	var stop int32
	var wg sync.WaitGroup
	reads := make([][]rop, nReaders)
	readCount := make([]int64, nReaders)
	const maxRecorded = 1500
	for g := 0; g < nReaders; g++ {
		wg.Add(1)
		go func(g int) {
			defer wg.Done()
			lr := rand.New(rand.NewSource(int64(runNo)*1000 + int64(g) + c.r.Seed*7919))
			for i := 0; atomic.LoadInt32(&stop) == 0; i++ {
				api := apis[(g+i)%len(apis)]
				vi := lr.Intn(len(vids))
				call := tick()
				urls, torn := c.read(api, vids[vi], i%3 != 0)
				ret := tick()
				atomic.AddInt64(&readCount[g], 1)
				if len(reads[g]) < maxRecorded {
					reads[g] = append(reads[g], rop{Reader: g, Api: api, Vid: vi, Call: call, Ret: ret, Urls: urls, Torn: torn})
				}
				if i%8 == 7 {
					time.Sleep(50 * time.Microsecond)
				}
			}
		}(g)
	}
	// the applier storm: batches of messages, each batch closed by a sentinel barrier
	var writes []wop
	present := make([]uint32, len(vids))
	for sent := 0; sent < nMsgs; {
		batch := []int{1, 1, 2, 4, 8}[rng.Intn(5)]
		first := len(writes)
		for b := 0; b < batch && sent < nMsgs; b++ {
			vi := rng.Intn(len(vids))
			si := rng.Intn(len(servers))
			// bias: keep lists long, delete from anywhere
			add := present[vi]&(1<<uint(si)) == 0
			if rng.Intn(6) == 0 {
				add = !add // redundant add / delete of an absent location
			}
			m := smsg{Server: si, Alt: rng.Intn(5) == 0}
			if add {
				m.New = []uint32{vids[vi]}
				present[vi] |= 1 << uint(si)
			} else {
				m.Del = []uint32{vids[vi]}
				present[vi] &^= 1 << uint(si)
			}
			w := wop{Vid: vi, Server: si, Add: add, Call: tick()}
			c.send(m.pb())
			writes = append(writes, w)
			sent++
		}
		c.barrier()
		ret := tick()
		for i := first; i < len(writes); i++ {
			writes[i].Ret = ret
		}
		if rng.Intn(3) == 0 { // a quiet period: reads here overlap no update
			t0 := atomicSum(readCount)
			for k := 0; k < 200000 && atomicSum(readCount) < t0+int64(4*nReaders); k++ {
				runtime.Gosched()
			}
		}
	}
	atomic.StoreInt32(&stop, 1)
	wg.Wait()

	// reference states after every prefix of the (ordered) notifications, per vid
	type pref struct {
		calls, rets []int64
		states      []uint32 // states[k] = state after k notifications
	}
	prefs := make([]*pref, len(vids))
	for vi := range vids {
		prefs[vi] = &pref{states: []uint32{0}}
	}
	for _, w := range writes {
		p := prefs[w.Vid]
		s := p.states[len(p.states)-1]
		if w.Add {
			s |= 1 << uint(w.Server)
		} else {
			s &^= 1 << uint(w.Server)
		}
		p.calls = append(p.calls, w.Call)
		p.rets = append(p.rets, w.Ret)
		p.states = append(p.states, s)
	}
	var total, during, quiet, distinctStates int64
	statesSeen := map[string]bool{}
	bad := 0
	for g := range reads {
		for _, rd := range reads[g] {
			total++
			p := prefs[rd.Vid]
			lo := sort.Search(len(p.rets), func(i int) bool { return p.rets[i] >= rd.Call })  // notifications certainly applied before the call
			hi := sort.Search(len(p.calls), func(i int) bool { return p.calls[i] >= rd.Ret }) // notifications possibly applied before the return
			mask, dup, foreign := maskOf(rd.Urls)
			k := fmt.Sprintf("%d/%06b", rd.Vid, mask)
			if !statesSeen[k] {
				statesSeen[k] = true
				distinctStates++
			}
			class := ""
			switch {
			case rd.Torn || foreign:
				class = "torn-entry"
			case dup:
				class = "duplicate"
			default:
				okState := false
				for j := lo; j <= hi; j++ {
					if p.states[j] == mask {
						okState = true
						break
					}
				}
				if !okState {
					class = "state-never-current"
				}
			}
			dur := "quiescent"
			if hi > lo {
				dur = "update"
				during++
			} else {
				quiet++
			}
			r.Eval(1)
			if class != "" {
				bad++
				var window []wop
				n := 0
				for _, w := range writes {
					if w.Vid == rd.Vid {
						if n >= lo-2 && n <= hi+1 {
							window = append(window, w)
						}
						n++
					}
				}
				r.Violation(lib.Sig{"mode": "concurrent", "api": rd.Api, "class": class, "during": dur},
					map[string]interface{}{"read": rd, "prefix_lo": lo, "prefix_hi": hi, "client_dc": c.dc,
						"states_possible": p.states[lo : hi+1], "notifications_around": window})
			}
		}
	}
	r.Count("concurrent_reads_checked", total)
	r.Count("concurrent_reads_overlapping_update", during)
	r.Count("concurrent_reads_quiescent", quiet)
	r.Count("concurrent_reads_total", atomicSum(readCount))
	r.Count("concurrent_notifications", int64(len(writes)))
	r.Count("concurrent_distinct_observed_states", distinctStates)
	r.Count("concurrent_runs", 1)

	// porcupine on a sample of the history (reads already reported above are left out:
	// they are known not to fit and would only repeat the report)
	for vi := range vids {
		var ops []porcupine.Operation
		for _, w := range writes {
			if w.Vid != vi {
				continue
			}
			kind := 1
			if w.Add {
				kind = 0
			}
			ops = append(ops, porcupine.Operation{ClientId: 0, Input: setIn{Kind: kind, Server: w.Server}, Call: w.Call, Output: uint32(0), Return: w.Ret})
		}
		nr := 0
		for g := range reads {
			step := len(reads[g])/250 + 1
			for i := 0; i < len(reads[g]); i += step {
				rd := reads[g][i]
				if rd.Vid != vi {
					continue
				}
				mask, dup, foreign := maskOf(rd.Urls)
				if dup || foreign || rd.Torn {
					continue
				}
				p := prefs[vi]
				lo := sort.Search(len(p.rets), func(i int) bool { return p.rets[i] >= rd.Call })
				hi := sort.Search(len(p.calls), func(i int) bool { return p.calls[i] >= rd.Ret })
				fits := false
				for j := lo; j <= hi; j++ {
					if p.states[j] == mask {
						fits = true
					}
				}
				if !fits {
					continue
				}
				ops = append(ops, porcupine.Operation{ClientId: g + 1, Input: setIn{Kind: 2}, Call: rd.Call, Output: mask, Return: rd.Ret})
				nr++
			}
		}
		res := porcupine.CheckOperationsTimeout(setModel, ops, 60*time.Second)
		r.Eval(1)
		r.Count("porcupine_partitions_checked", 1)
		r.Count("porcupine_operations", int64(len(ops)))
		switch res {
		case porcupine.Illegal:
			r.Violation(lib.Sig{"mode": "concurrent", "api": "all", "class": "history-not-linearizable", "during": "update"},
				map[string]interface{}{"vid_index": vi, "operations": len(ops), "reads": nr, "client_dc": c.dc})
		case porcupine.Unknown:
			r.Inconclusive("porcupine timed out on a partition")
		}
	}
	if during > 0 {
		r.Nontrivial(fmt.Sprintf("conc/%d/%d/%d", runNo, during, distinctStates))
	}
	if runNo == 0 {
		n := len(writes)
		if n > 6 {
			n = 6
		}
		var rs []rop
		for g := range reads {
			if len(reads[g]) > 0 {
				rs = append(rs, reads[g][len(reads[g])/2])
			}
		}
		r.Sample(map[string]interface{}{"mode": "concurrent", "first_notifications": writes[:n], "one_read_per_reader": rs})
	}
	_ = bad
}

func atomicSum(a []int64) int64 {
	var s int64
	for i := range a {
		s += atomic.LoadInt64(&a[i])
	}
	return s
}

// ---------------------------------------------------------------- reconnect mode

func (c *client) runReconnect(no int, rng *rand.Rand, withReaders bool) {
	r := c.r
	vids := freshVids(3)
	// a state in which a foreign-dc location was announced before the own-dc ones
	seq := []smsg{{Server: 0, New: vids}, {Server: 4, New: vids[:2]}, {Server: 1, New: vids}, {Server: 3, New: vids[1:]}, {Server: 2, New: vids[:1]}}
	seq = append(seq, genSequence(rng, vids, rng.Intn(6))...)
	r.Case(map[string]interface{}{"mode": "reconnect", "client_dc": c.dc, "vids": vids, "seq": seq})
	detail := func() interface{} {
		return map[string]interface{}{"mode": "reconnect", "client_dc": c.dc, "vids": vids, "seq": seq}
	}
	ref := refState{}
	for _, m := range seq {
		c.send(m.pb())
		ref.apply(m)
	}
	c.barrier()
	c.checkAll(ref, vids, c.afterLabel(), detail)
	var stop int32
	var wg sync.WaitGroup
	if withReaders {
		for g := 0; g < 4; g++ {
			wg.Add(1)
			go func(g int) {
				defer wg.Done()
				for i := 0; atomic.LoadInt32(&stop) == 0; i++ {
					c.read(apis[(g+i)%len(apis)], vids[i%len(vids)], false)
					if i%8 == 7 {
						time.Sleep(200 * time.Microsecond)
					}
				}
			}(g)
		}
	}
	before := c.fm.Sessions(c.name)
	r.Must(c.fm.Drop(c.name), "drop stream")
	if !c.fm.WaitSession(c.name, before+1, 90*time.Second) {
		r.Inconclusive("client did not reconnect after the stream was dropped")
		r.Finish(0)
	}
	c.reconnects++
	c.barrier()
	atomic.StoreInt32(&stop, 1)
	wg.Wait()
	r.Count("reconnects", 1)
	c.checkAll(ref, vids, "reconnect", detail)
	// and the map keeps following updates after the reconnect
	more := genSequence(rng, vids, 2+rng.Intn(5))
	for _, m := range more {
		c.send(m.pb())
		ref.apply(m)
	}
	seq = append(seq, more...)
	c.barrier()
	c.checkAll(ref, vids, "reconnect", detail)
	r.Nontrivial(fmt.Sprintf("reconnect/%s/%d/%v", c.dc, no, seq))
}

// ---------------------------------------------------------------- race log

// raceVerdict parses this process's race log. Decisive: reports whose two accessing
// functions (innermost frame that is not runtime/sync machinery) are both inside the
// component. Reports that merely pass through the component, or whose other side is
// harness code walking a returned slice, are recorded in the evidence only.
func raceVerdict(r *lib.Run, component string) {
	reps := lib.ParseRaceLogs(lib.RaceLogPath())
	r.Count("race_reports_total", int64(len(reps)))
	seen := map[string]int{}
	other := map[string]int{}
	for _, rep := range reps {
		acc := rep.Accesses()
		if len(acc) < 2 || !rep.AccessesIn(component) {
			k := rep.Signature()
			if len(acc) == 2 {
				k = lib.ShortFn(acc[0].Fn) + " | " + lib.ShortFn(acc[1].Fn)
			}
			other[k]++
			continue
		}
		w, o := acc[0], acc[1]
		if !w.Write || (o.Write && lib.ShortFn(o.Fn) < lib.ShortFn(w.Fn)) {
			w, o = o, w
		}
		sig := lib.ShortFn(w.Fn) + "|" + lib.ShortFn(o.Fn)
		seen[sig]++
		if seen[sig] == 1 {
			r.Eval(1)
			text := rep.Text
			if len(text) > 3000 {
				text = text[:3000]
			}
			r.Violation(lib.Sig{"mode": "race", "class": "data-race", "writer": lib.ShortFn(w.Fn), "other": lib.ShortFn(o.Fn)}, map[string]interface{}{"report": text})
		}
	}
	r.Note("race_signatures_in_component", seen)
	if len(other) > 0 {
		r.Note("race_signatures_elsewhere_recorded_not_decisive", other)
	}
}

// ---------------------------------------------------------------- reconnect under load

// reconnectLoadChild (own process): lookups keep running while the stream is dropped
// and re-established. Only survival and the race log are judged here; the state after
// a reconnect is judged by the quiet reconnect mode.
func reconnectLoadChild(r *lib.Run, fm *lib.FakeMaster) {
	clients := []*client{
		newClientOwn(r, "dc1"),
		newClientOwn(r, "dc2"),
	}
	rng := r.SubRng("c35-reconnect-load-" + r.Args[1])
	for round := 0; round < 3; round++ {
		var wg sync.WaitGroup
		for _, c := range clients {
			wg.Add(1)
			go func(c *client, rng *rand.Rand) {
				defer wg.Done()
				c.runReconnect(round, rng, true)
			}(c, rand.New(rand.NewSource(rng.Int63())))
		}
		wg.Wait()
		fmt.Println("RECONNECT-ROUND-SURVIVED")
	}
	os.Exit(0)
}

// reconnectUnderLoad runs the child n times and classifies how it ended.
func reconnectUnderLoad(r *lib.Run, self string, n int) {
	for k := 0; k < n; k++ {
		dir := r.SubDir("reconnectload")
		cmd := exec.Command(self, "--tier", r.Tier, "reconnectload", fmt.Sprint(k))
		cmd.Env = append(os.Environ(), "VERIF_CHILD_OUT="+filepath.Join(dir, "out.json"), "VERIF_SCRATCH="+dir,
			"VERIF_CASE_FILE="+filepath.Join(dir, "case.json"), fmt.Sprintf("VERIF_SEED=%d", r.Seed))
		out, _ := cmd.CombinedOutput()
		text := string(out)
		r.Eval(1)
		survived := strings.Count(text, "RECONNECT-ROUND-SURVIVED")
		r.Count("reconnects_under_load", int64(survived*2))
		if i := strings.Index(text, "fatal error: "); i >= 0 {
			msg := text[i:]
			if j := strings.Index(msg, "\n"); j > 0 {
				msg = msg[:j]
			}
			tail := text[i:]
			if len(tail) > 2500 {
				tail = tail[:2500]
			}
			r.Count("reconnect_under_load_process_died", 1)
			msg = strings.TrimPrefix(msg, "fatal error: ")
			// the runtime's message can be interleaved with log lines of other threads
			for _, phrase := range []string{"sync: RUnlock of unlocked RWMutex", "sync: Unlock of unlocked RWMutex", "concurrent map read and map write",
				"concurrent map writes", "concurrent map iteration and map write", "all goroutines are asleep"} {
				if strings.Contains(tail, phrase) {
					msg = phrase
					break
				}
			}
			r.Violation(lib.Sig{"mode": "reconnect-under-load", "class": "process-died", "fatal": msg},
				map[string]interface{}{"attempt": k, "rounds_survived": survived, "log": tail})
		} else if survived < 3 {
			tail := text
			if len(tail) > 2500 {
				tail = tail[len(tail)-2500:]
			}
			r.Violation(lib.Sig{"mode": "reconnect-under-load", "class": "process-died", "fatal": "other"},
				map[string]interface{}{"attempt": k, "rounds_survived": survived, "log": tail})
		}
		r.Nontrivial(fmt.Sprintf("reconnect-under-load/%d", k))
		os.RemoveAll(dir)
	}
}

// ---------------------------------------------------------------- main

func main() {
	r := lib.Start("C35", "exploration")
	r.SetRule("a real wdclient.MasterClient fed by the harness fake master over the real KeepConnected stream. sequential: random sequences of VolumeLocation messages (1-3 volume ids, 6 servers identified by Url in 4 data-center classes whose PublicUrl varies independently (two share one, two have none, two re-announce themselves with another one), several ids per message, redundant adds, deletes of absent locations), sentinel barrier, all four lookup APIs compared with a reference set + same-dc-first rule, for clients with and without a data center; concurrent: reader goroutines on all lookup APIs (walking the returned slices) during add/delete storms on 3 volume ids, every read matched against the reference state after each prefix of notifications possible between its call and return, porcupine set model on a sample; reconnect: stream dropped, map rebuilt from replay, checked again. distinct = distinct (client dc, message sequence) resp. concurrent run with its measured overlap; non-trivial = at least one lookup returned/should return locations resp. at least one read overlapped an update")
	r.Assume("the KeepConnected stream delivers messages in order and the client applies them in one goroutine (sentinel barrier; total order of notifications)")
	r.Assume("a volume id with no remaining location may be reported as not found or as found with an empty list")
	r.Assume("reads while the client is between two streams (map deliberately emptied) are not judged, only race reports and the state after the reconnect barrier")
	r.Assume("race reports are decisive only when both stacks contain a frame of weed/wdclient (DESIGN section 4)")

	fm, err := lib.NewFakeMaster()
	r.Must(err, "start fake master")
	defer fm.Stop()

	if r.Replay != "" {
		var d struct {
			Case struct {
				ClientDc string   `json:"client_dc"`
				Vids     []uint32 `json:"vids"`
				Seq      []smsg   `json:"seq"`
			} `json:"case"`
		}
		r.Must(r.LoadReplay(&d), "load replay")
		c := newClient(r, fm, d.Case.ClientDc, []string{fm.Addr()})
		ref := refState{}
		for _, m := range d.Case.Seq {
			c.send(m.pb())
			ref.apply(m)
			c.barrier()
			c.checkAll(ref, d.Case.Vids, "initial", func() interface{} { return d.Case })
		}
		r.Finish(0)
	}

	if len(r.Args) == 2 && r.Args[0] == "reconnectload" {
		reconnectLoadChild(r, fm)
	}
	partNo := -1
	if len(r.Args) == 2 && r.Args[0] == "part" { // child invocation: positional, lib.Start owns the flags
		partNo, _ = strconv.Atoi(r.Args[1])
	}
	part := &partNo
	repeats := 3

	if *part < 0 {
		// parent: the work runs in children (the race detector makes a process that saw a
		// race exit with its own status; children report through their summary file)
		self := os.Getenv("VERIF_SELF")
		if self == "" {
			self = os.Args[0]
		}
		fm.Stop()
		var cwg sync.WaitGroup
		for k := 0; k < repeats; k++ {
			cwg.Add(1)
			go func(k int) {
				defer cwg.Done()
				r.RunChild(fmt.Sprintf("part%d", k), self, nil, "part", fmt.Sprint(k))
			}(k)
		}
		cwg.Wait()
		reconnectUnderLoad(r, self, r.Pick(2, 6))
		raceVerdict(r, "weed/wdclient.")
		sum := func(name string) int64 {
			var t int64
			for k := 0; k < repeats; k++ {
				t += r.Counter(fmt.Sprintf("part%d.%s", k, name))
			}
			return t
		}
		for _, k := range []string{"messages_sent", "barriers", "sequential_sequences", "sequential_lookups_multi_location", "concurrent_runs", "concurrent_notifications",
			"concurrent_reads_total", "concurrent_reads_checked", "concurrent_reads_overlapping_update", "concurrent_reads_quiescent", "concurrent_distinct_observed_states",
			"porcupine_partitions_checked", "porcupine_operations", "reconnects", "leader_redirects"} {
			r.Note("total_"+k, sum(k))
		}
		r.Note("total_reconnects_under_load", r.Counter("reconnects_under_load"))
		if sum("barriers") == 0 || sum("concurrent_reads_overlapping_update") == 0 || sum("sequential_lookups_multi_location") == 0 || sum("reconnects") == 0 {
			r.Inconclusive("nothing observed in one of the modes (barriers / overlapping reads / multi-location lookups / reconnects)")
		}
		r.Finish(100)
	}

	clients := []*client{
		newClientOwn(r, "dc1"),
		newClientOwn(r, ""),
		newClientOwn(r, "dc2"),
	}
	t0 := time.Now()
	phase := func(name string) { fmt.Fprintf(os.Stderr, "phase %s done at %.1fs\n", name, time.Since(t0).Seconds()) }

	// sequential: the clients work through their sequences side by side
	nSeq := r.Pick(2000, 12000) / repeats
	var swg sync.WaitGroup
	for ci, c := range clients {
		swg.Add(1)
		go func(ci int, c *client) {
			defer swg.Done()
			rng := r.SubRng(fmt.Sprintf("c35-seq-%d-%d", *part, ci))
			for i := ci; i < nSeq; i += len(clients) {
				c.runSequential(i+*part*1000000, rng)
				if r.Violations() > 20 {
					break
				}
			}
		}(ci, c)
	}
	swg.Wait()
	r.Count("sequential_sequences", int64(nSeq))
	phase("sequential")

	// concurrent
	runs := r.Pick(20, 100)
	crng := r.SubRng(fmt.Sprintf("c35-conc-%d", *part))
	for i := 0; i < runs; i++ {
		clients[i%len(clients)].runConcurrent(*part*10000+i, crng, 8, r.Pick(80, 160))
	}
	phase("concurrent")

	// reconnect (each costs the client's 1 s back-off)
	rrng := r.SubRng(fmt.Sprintf("c35-reconnect-%d", *part))
	nRec := r.Pick(1, 3)
	for i := 0; i < nRec; i++ {
		var rwg sync.WaitGroup
		for _, c := range clients {
			rwg.Add(1)
			go func(c *client, rng *rand.Rand) {
				defer rwg.Done()
				c.runReconnect(i, rng, false)
			}(c, rand.New(rand.NewSource(rrng.Int63())))
		}
		rwg.Wait()
	}
	phase("reconnect")
	// after the reconnects: the sequential oracle again on the rebuilt maps
	rng := r.SubRng(fmt.Sprintf("c35-seq-after-%d", *part))
	for i := 0; i < r.Pick(60, 600); i++ {
		clients[i%len(clients)].runSequential(2000000+i, rng)
	}

	// leader redirect: the first master answers with a hint, the client follows it
	if fm2, err := lib.NewFakeMaster(); err == nil && *part == 0 {
		c := clients[0]
		vids := freshVids(2)
		seq := []smsg{{Server: 0, New: vids}, {Server: 1, New: vids}, {Server: 5, New: vids[:1]}}
		ref := refState{}
		for _, m := range seq {
			c.send(m.pb())
			ref.apply(m)
		}
		c.barrier()
		c.fm.CopyStateTo(c.name, fm2)
		c.fm.HintLeaderOnce(c.name, fm2.Addr())
		r.Must(c.fm.Drop(c.name), "drop stream for redirect")
		if fm2.WaitSession(c.name, 1, 90*time.Second) {
			c.fm = fm2
			c.reconnects++
			c.barrier()
			c.checkAll(ref, vids, "reconnect", func() interface{} {
				return map[string]interface{}{"mode": "leader-redirect", "client_dc": c.dc, "vids": vids, "seq": seq}
			})
			r.Count("leader_redirects", 1)
		} else {
			r.Note("leader_redirect", "client did not follow the leader hint within the watchdog (not judged)")
		}
		defer fm2.Stop()
	}
	phase("redirect")
	r.Finish(0)
}
