// C05 — Volume index: in-memory map, on-disk index and counters agree.
//
// Three levels, all against the real code, each compared with a reference map:
//   (i)   needle_map.CompactMap and needle_map.MemDb (Set/Delete/Get/AscendingVisit);
//   (ii)  storage.NeedleMapper implementations over real index files (memory =
//         LoadCompactNeedleMap, leveldb = NewLevelDbNeedleMap, sorted =
//         NewSortedFileNeedleMap); at the end of every sequence the counters and
//         lookups of the live map are compared with a map freshly loaded from a copy
//         of the same .idx;
//   (iii) whole volumes through storage.Store, closed and reopened.
// The default build runs its own cases and then the 5BytesOffset build of the same
// driver as a child (VERIF_BIN_5B), so both offset widths end up in one evidence file.
package main

import (
	"bytes"
	"fmt"
	"io"
	"math/rand"
	"os"
	"path/filepath"
	"runtime/debug"
	"runtime/pprof"
	"sort"
	"strings"
	"time"

	"github.com/syndtr/goleveldb/leveldb/opt"

	"github.com/chrislusf/seaweedfs/weed/storage"
	"github.com/chrislusf/seaweedfs/weed/storage/needle"
	"github.com/chrislusf/seaweedfs/weed/storage/needle_map"
	"github.com/chrislusf/seaweedfs/weed/storage/types"

	"verifharness/lib"
)

var (
	r     *lib.Run
	build = fmt.Sprintf("%dbytes", types.OffsetSize)
)

// ---------------------------------------------------------------- operations

type op struct {
	Kind string `json:"kind"` // S(et/put) D(elete) G(et) R(eopen, volume level)
	Key  uint64 `json:"key"`
	Off  int64  `json:"off,omitempty"`  // actual byte offset (multiple of 8, never 0)
	Size int32  `json:"size,omitempty"` // needle size (level i/ii) or payload length (level iii)
	Role string `json:"role,omitempty"` // how the generator chose the key (coverage / signature only)
}

type refEntry struct {
	st   int // 0 absent, 1 live, 2 deleted
	off  int64
	size int32
	zero bool // the current (or just deleted) incarnation was put with size 0
	role string
	// 5th offset bytes (off>>35) of all earlier puts of this key (classification of stale 5-byte offsets only)
	earlierHigh map[int64]bool
}

// put records a put in the reference entry
func (e *refEntry) put(off int64, size int32, role string) {
	eh := e.earlierHigh
	if e.st != 0 || len(eh) > 0 {
		if eh == nil {
			eh = map[int64]bool{}
		}
		if e.off != 0 {
			eh[e.off>>35] = true
		}
	}
	*e = refEntry{st: 1, off: off, size: size, zero: size == 0, role: role, earlierHigh: eh}
}

type refMap map[uint64]*refEntry

func (m refMap) get(k uint64) *refEntry {
	e := m[k]
	if e == nil {
		e = &refEntry{}
		m[k] = e
	}
	return e
}

func inputClass(e *refEntry, role string) string {
	if e != nil && e.zero {
		return "size-zero"
	}
	if role == "beyond-span" || (e != nil && e.role == "beyond-span") {
		return "key-beyond-section-span"
	}
	return "plain"
}

// countBoundary counts puts whose offset is an exact multiple of 32 GiB (four low offset bytes zero) or one unit off it
func countBoundary(level string, off int64) {
	if types.OffsetSize != 5 {
		return
	}
	switch units := off >> 3; {
	case units&0xffffffff == 0:
		r.Count(level+"_puts_at_exact_32GiB_multiple", 1)
	case (units+1)&0xffffffff == 0 || (units-1)&0xffffffff == 0:
		r.Count(level+"_puts_next_to_32GiB_multiple", 1)
	}
}

// offsets: strictly increasing synthetic offsets; the 5-byte build sets the 5th byte.
type offGen struct {
	next int64
	rng  *rand.Rand
}

func (g *offGen) take() int64 {
	g.next += 8 * int64(1+g.rng.Intn(1000))
	off := g.next
	if types.OffsetSize == 5 {
		// units = off/8; put a non-zero value into bits 32..39 of the unit count
		hb := int64(1 + g.rng.Intn(255))
		switch g.rng.Intn(8) {
		case 0:
			// an exact multiple of 32 GiB: the four low offset bytes are zero, only the 5th byte is set
			return hb << 35
		case 1:
			// the neighbours of such a boundary (one padding unit below / above)
			if g.rng.Intn(2) == 0 {
				return hb<<35 - 8
			}
			return hb<<35 + 8
		}
		off += hb << 35
	}
	return off
}

// ---------------------------------------------------------------- level (i): value maps

type vmap interface {
	Set(key uint64, off int64, size int32)
	Delete(key uint64) int32
	Get(key uint64) (off int64, size int32, ok bool)
	Visit(fn func(key uint64, off int64, size int32))
	Close()
}

type compactAdapter struct{ m *needle_map.CompactMap }

func (a compactAdapter) Set(k uint64, off int64, size int32) {
	a.m.Set(types.NeedleId(k), types.ToOffset(off), types.Size(size))
}
func (a compactAdapter) Delete(k uint64) int32 { return int32(a.m.Delete(types.NeedleId(k))) }
func (a compactAdapter) Get(k uint64) (int64, int32, bool) {
	v, ok := a.m.Get(types.NeedleId(k))
	if !ok || v == nil {
		return 0, 0, false
	}
	return v.Offset.ToActualOffset(), int32(v.Size), true
}
func (a compactAdapter) Visit(fn func(uint64, int64, int32)) {
	_ = a.m.AscendingVisit(func(v needle_map.NeedleValue) error {
		fn(uint64(v.Key), v.Offset.ToActualOffset(), int32(v.Size))
		return nil
	})
}
func (a compactAdapter) Close() {}

type memdbAdapter struct{ m *needle_map.MemDb }

func (a memdbAdapter) Set(k uint64, off int64, size int32) {
	_ = a.m.Set(types.NeedleId(k), types.ToOffset(off), types.Size(size))
}
func (a memdbAdapter) Delete(k uint64) int32 {
	// MemDb.Delete returns only an error; removed size is not part of its interface
	_ = a.m.Delete(types.NeedleId(k))
	return -12345
}
func (a memdbAdapter) Get(k uint64) (int64, int32, bool) {
	v, ok := a.m.Get(types.NeedleId(k))
	if !ok || v == nil {
		return 0, 0, false
	}
	return v.Offset.ToActualOffset(), int32(v.Size), true
}
func (a memdbAdapter) Visit(fn func(uint64, int64, int32)) {
	_ = a.m.AscendingVisit(func(v needle_map.NeedleValue) error {
		fn(uint64(v.Key), v.Offset.ToActualOffset(), int32(v.Size))
		return nil
	})
}
func (a memdbAdapter) Close() { a.m.Close() }

func newVmap(impl string) vmap {
	if impl == "memdb" {
		return memdbAdapter{needle_map.NewMemDb()}
	}
	return compactAdapter{needle_map.NewCompactMap()}
}

type vcase struct {
	Part    string `json:"part"` // "valuemap"
	Impl    string `json:"impl"`
	Build   string `json:"build"`
	Prefill int    `json:"prefill"` // number of sparse ascending keys put first (key = 1000+10*i)
	Ops     []op   `json:"ops"`
	// CheckKeys are looked up after every op (besides the key of the op itself)
	CheckKeys []uint64 `json:"check_keys,omitempty"`
}

func isDeletedSize(s int32) bool { return types.Size(s).IsDeleted() }

// Writing the case file costs an open(O_TRUNC)+write+close; for the tens of thousands of tiny enumerated
// sequences it is written for every 32nd only. A panic inside a case is still attributed to the exact
// case through recover (guard); only an unrecoverable runtime fatal error falls back to the last logged one.
var caseSeq int

func logCase(c interface{}, small bool) {
	caseSeq++
	if !small || caseSeq%32 == 1 {
		r.Case(c)
	}
}

func guard(c interface{}, level string) {
	if p := recover(); p != nil {
		r.Violation(lib.Sig{"op": "any", "class": "panic", "level": level, "build": build},
			map[string]interface{}{"msg": fmt.Sprint(p), "stack": string(debug.Stack()), "case": c})
	}
}

// aliasVictim: a stored key k' != key with key-k' a positive multiple of 2^32 (the CompactSection key space is
// uint32 relative to the section start). Measurement for the signature only.
func aliasVictim(ref refMap, key uint64) (uint64, bool) {
	for k, e := range ref {
		if e.st != 0 && k < key && (key-k)%(1<<32) == 0 {
			return k, true
		}
	}
	return 0, false
}

const aliasTag = "stored-key+n*2^32"

// resyncAliases: after a (listed) aliasing delete the reference follows the real state of every
// stored key congruent to key modulo 2^32 — which one the delete hit depends on the section layout.
func resyncAliases(get func(uint64) (int64, int32, bool), ref refMap, key uint64) {
	for k, e := range ref {
		if k == key || e.st == 0 || (key-k)%(1<<32) != 0 {
			continue
		}
		_, size, ok := get(k)
		if ok && !isDeletedSize(size) {
			e.st = 1
		} else {
			e.st = 2
		}
	}
}

// offsetDifference names (measurement only) how a stale (offset,size) differs from the expected one.
func offsetDifference(gotOff, wantOff int64, gotSize, wantSize int32, earlierHigh map[int64]bool) string {
	if gotSize != wantSize {
		return "size"
	}
	x := uint64(gotOff) ^ uint64(wantOff)
	if x != 0 && x&((1<<35)-1) == 0 {
		if earlierHigh[gotOff>>35] {
			return "5th-offset-byte-of-an-earlier-put-of-this-key"
		}
		return "only-5th-offset-byte"
	}
	return "offset"
}

// checkGet compares one lookup with the reference. Returns false on an unlisted violation.
func checkGet(level, impl string, got func(uint64) (int64, int32, bool), ref refMap, key uint64, role string, detail interface{}) bool {
	off, size, ok := got(key)
	e := ref.get(key)
	r.Eval(1)
	diff := ""
	viol := func(class, msg string) bool {
		sig := lib.Sig{"op": "get", "class": class, "impl": impl, "level": level, "input": inputClass(e, role), "build": build}
		if diff != "" {
			sig["difference"] = diff
		}
		if class == "foreign-entry" {
			if _, ok := aliasVictim(ref, key); ok {
				sig["alias"] = aliasTag
			}
		}
		kr := e.role
		if kr == "" {
			kr = role
		}
		if kr != "" {
			sig["keyrole"] = kr
		}
		return r.Violation(sig, map[string]interface{}{"msg": msg, "key": key, "got_ok": ok, "got_off": off, "got_size": size,
			"ref_state": e.st, "ref_off": e.off, "ref_size": e.size, "case": detail})
	}
	switch e.st {
	case 0:
		if ok && !isDeletedSize(size) {
			if viol("foreign-entry", "lookup of a key that was never inserted returned a live entry") {
				return false
			}
		} else if ok {
			r.Count("absent_key_reported_deleted", 1)
		}
	case 1:
		if !ok || isDeletedSize(size) {
			if viol("live-key-missing", "lookup of a live key returned not-found/deleted") {
				return false
			}
			e.st = 2
		} else if off != e.off || size != e.size {
			diff = offsetDifference(off, e.off, size, e.size, e.earlierHigh)
			if viol("stale-entry", "lookup of a live key returned another (offset,size) than the latest put") {
				return false
			}
			e.off, e.size = off, size
		}
	case 2:
		if ok && !isDeletedSize(size) {
			if viol("deleted-reported-live", "lookup of a deleted key returned a live entry") {
				return false
			}
			e.st, e.off, e.size = 1, off, size // follow the real state (listed finding)
		}
	}
	return true
}

func runValueCase(c vcase) (res bool) {
	logCase(c, len(c.Ops) <= 8)
	defer guard(c, "valuemap")
	m := newVmap(c.Impl)
	defer m.Close()
	ref := refMap{}
	pg := &offGen{rng: rand.New(rand.NewSource(int64(c.Prefill) + 7))}
	for i := 0; i < c.Prefill; i++ {
		k := uint64(1000 + 10*i)
		off := pg.take()
		m.Set(k, off, int32(100+i))
		*ref.get(k) = refEntry{st: 1, off: off, size: int32(100 + i)}
	}
	okAll := true
	for i, o := range c.Ops {
		e := ref.get(o.Key)
		switch o.Kind {
		case "S":
			m.Set(o.Key, o.Off, o.Size)
			e.put(o.Off, o.Size, o.Role)
			r.Count("vm_set", 1)
			countBoundary("vm", o.Off)
		case "D":
			got := m.Delete(o.Key)
			want := int32(0)
			if e.st == 1 {
				want = e.size
			}
			if got != -12345 {
				r.Eval(1)
				if got != want {
					state := []string{"absent", "live", "already-deleted"}[e.st]
					sig := lib.Sig{"op": "delete", "class": "wrong-removed-size", "impl": c.Impl, "level": "valuemap",
						"input": inputClass(e, o.Role), "target": state, "build": build}
					if got < 0 {
						sig["returned"] = "negative"
					} else {
						sig["returned"] = "other"
					}
					if _, ok := aliasVictim(ref, o.Key); ok && e.st == 0 && got > 0 {
						sig["alias"] = aliasTag
						resyncAliases(m.Get, ref, o.Key) // another stored key was deleted instead (follow the real state after reporting)
					}
					if r.Violation(sig, map[string]interface{}{"msg": "Delete returned a wrong removed size", "got": got, "want": want, "at": i, "case": c}) {
						okAll = false
					}
				}
			}
			if e.st == 1 {
				e.st = 2
			}
			r.Count("vm_delete", 1)
		}
		if !checkGet("valuemap", c.Impl, m.Get, ref, o.Key, o.Role, c) {
			okAll = false
		}
		for _, k := range c.CheckKeys {
			if k != o.Key && !checkGet("valuemap", c.Impl, m.Get, ref, k, "", c) {
				okAll = false
			}
		}
		if !okAll {
			return false
		}
	}
	return checkVisit(c.Impl, m, ref, c) && okAll
}

// checkVisit: AscendingVisit enumerates exactly the reference, in key order.
func checkVisit(impl string, m vmap, ref refMap, detail interface{}) bool {
	var last uint64
	first := true
	seen := map[uint64]bool{}
	bad := ""
	visitDiff := ""
	var badKey uint64
	inputOf := "plain"
	m.Visit(func(k uint64, off int64, size int32) {
		if bad != "" {
			return
		}
		if !first && k <= last {
			bad, badKey = "not-ascending", k
			return
		}
		first, last = false, k
		seen[k] = true
		e := ref[k]
		switch {
		case e == nil || e.st == 0:
			if !isDeletedSize(size) {
				bad, badKey = "visit-foreign-entry", k
			}
		case e.st == 1:
			if isDeletedSize(size) || off != e.off || size != e.size {
				bad, badKey, inputOf = "visit-stale-entry", k, inputClass(e, "")
				if !isDeletedSize(size) {
					visitDiff = offsetDifference(off, e.off, size, e.size, e.earlierHigh)
				}
			}
		case e.st == 2:
			if !isDeletedSize(size) {
				bad, badKey, inputOf = "visit-deleted-live", k, inputClass(e, "")
			}
		}
	})
	if bad == "" {
		for k, e := range ref {
			if e.st == 1 && !seen[k] {
				bad, badKey, inputOf = "visit-missing-live", k, inputClass(e, "")
				break
			}
		}
	}
	r.Eval(1)
	if bad != "" {
		sig := lib.Sig{"op": "visit", "class": bad, "impl": impl, "level": "valuemap", "input": inputOf, "build": build}
		if visitDiff != "" {
			sig["difference"] = visitDiff
		}
		return !r.Violation(sig,
			map[string]interface{}{"msg": "AscendingVisit disagrees with the reference", "key": badKey, "case": detail})
	}
	return true
}

// exhaustive enumeration over an alphabet of op templates
func enumerate(alpha []op, maxLen int, fn func(seq []int) bool) {
	for L := 1; L <= maxLen; L++ {
		idx := make([]int, L)
		for {
			if !fn(idx) {
				return
			}
			j := L - 1
			for j >= 0 {
				idx[j]++
				if idx[j] < len(alpha) {
					break
				}
				idx[j] = 0
				j--
			}
			if j < 0 {
				break
			}
		}
	}
}

func valueMapPart() {
	tStart := time.Now()
	// Prefilled section: keys 1000,1010,...,1000+10*(P-1). Roles of the 4 test keys:
	//   existing   : present in the sorted values array (in-place update)
	//   in-window  : absent, lands within the 128-entry look-back window (insertion sort)
	//   overflow   : absent, smaller than values[counter-128] (goes to the overflow list)
	//   beyond-end : larger than every key (plain append)
	const P = 200
	keys := []struct {
		k    uint64
		role string
	}{{1000 + 10*150, "existing"}, {1000 + 10*190 + 5, "in-window"}, {1000 + 10*20 + 5, "overflow"}, {1000 + 10*P + 50, "beyond-end"}}
	type tmpl struct {
		kind string
		ki   int
		zero bool
	}
	var alpha []tmpl
	for i := range keys {
		alpha = append(alpha, tmpl{"S", i, false}, tmpl{"D", i, false})
	}
	alphaZ := append([]tmpl{}, alpha...)
	for i := range keys {
		alphaZ = append(alphaZ, tmpl{"S", i, true})
	}
	check := []uint64{}
	for _, k := range keys {
		check = append(check, k.k)
	}
	for _, impl := range []string{"compactmap", "memdb"} {
		for pass, al := range [][]tmpl{alpha, alphaZ} {
			maxLen := r.Pick(3, 4)
			if pass == 1 {
				maxLen = r.Pick(3, 4)
			}
			prefill := P
			if impl == "memdb" {
				prefill = 8 // no look-back window there; keep the db small
				maxLen-- // opening an in-memory leveldb per sequence is the expensive part
			}
			dummy := make([]op, len(al))
			n := 0
			enumerate(dummy, maxLen, func(seq []int) bool {
				if pass == 1 {
					hasZ := false
					for _, x := range seq {
						hasZ = hasZ || al[x].zero
					}
					if !hasZ {
						return true // enumerated by pass 0
					}
				}
				og := &offGen{next: 1 << 20, rng: rand.New(rand.NewSource(int64(n)))}
				c := vcase{Part: "valuemap", Impl: impl, Build: build, Prefill: prefill, CheckKeys: check}
				key := impl
				nontriv := false
				for _, s := range seq {
					t := al[s]
					o := op{Kind: t.kind, Key: keys[t.ki].k, Role: keys[t.ki].role}
					if t.kind == "S" {
						o.Off = og.take()
						if !t.zero {
							o.Size = int32(1 + og.rng.Intn(5000))
						}
						nontriv = true
					}
					c.Ops = append(c.Ops, o)
					key += fmt.Sprintf("/%d", s)
				}
				n++
				runValueCase(c)
				if nontriv {
					r.Nontrivial("vm-exh/" + build + "/" + fmt.Sprint(pass) + "/" + key)
				}
				if n == 777 {
					r.Sample(c)
				}
				return r.Violations() < 20
			})
			r.Count("vm_exhaustive_sequences_"+impl, int64(n))
		}
	}
	fmt.Fprintf(os.Stderr, "c05[%s]: valuemap exhaustive done at %.1fs\n", build, time.Since(tStart).Seconds())
	r.Note(build+".valuemap_exhaustive", fmt.Sprintf("all sequences of <=%d ops (Set/Delete) and <=%d ops (Set/SetSizeZero/Delete) over 4 keys (existing, in-window, overflow, beyond-end) on a section prefilled with %d sparse keys", r.Pick(3, 4), r.Pick(3, 4), P))

	// random long sequences with adversarial key orders
	nseq, nops := r.Pick(18, 72), r.Pick(3000, 5000)
	gens := []string{"ascending", "descending", "backjump-small", "backjump-large", "duplicates", "span"}
	for s := 0; s < nseq; s++ {
		gen := gens[s%len(gens)]
		for _, impl := range []string{"compactmap", "memdb"} {
			if impl == "memdb" && s%3 != 0 {
				continue
			}
			rng := r.SubRng(fmt.Sprintf("c05-vm-%s-%d", impl, s))
			c := vcase{Part: "valuemap", Impl: impl, Build: build}
			c.Ops, c.CheckKeys = genOps(rng, gen, nops, true)
			runValueCase(c)
			r.Nontrivial(fmt.Sprintf("vm-rand/%s/%s/%s/%d", build, impl, gen, s))
			r.Count("vm_random_sequences_"+gen, 1)
			if s < len(gens) && impl == "compactmap" && s%3 == 1 {
				short := c
				short.Ops = append([]op{}, c.Ops[:8]...)
				r.Sample(map[string]interface{}{"generator": gen, "first_ops": short})
			}
		}
		if r.Violations() >= 20 {
			break
		}
	}

	fmt.Fprintf(os.Stderr, "c05[%s]: valuemap random done at %.1fs\n", build, time.Since(tStart).Seconds())
	// crossing the 100 000-entry section batch
	ncross := r.Pick(1, 3)
	for s := 0; s < ncross; s++ {
		rng := r.SubRng(fmt.Sprintf("c05-vm-cross-%d", s))
		c := vcase{Part: "valuemap", Impl: "compactmap", Build: build}
		c.Ops, c.CheckKeys = genCrossing(rng, 135000)
		r.Case(map[string]interface{}{"part": "valuemap", "impl": "compactmap", "generator": "crossing", "n": s, "ops": len(c.Ops)})
		runValueCaseNoLog(c)
		r.Nontrivial(fmt.Sprintf("vm-cross/%s/%d", build, s))
		r.Count("vm_crossing_runs", 1)
	}
}

func runValueCaseNoLog(c vcase) bool {
	// same as runValueCase, but the case file is written by the caller (the op list is large)
	m := newVmap(c.Impl)
	defer m.Close()
	ref := refMap{}
	small := vcase{Part: c.Part, Impl: c.Impl, Build: c.Build}
	for i, o := range c.Ops {
		e := ref.get(o.Key)
		switch o.Kind {
		case "S":
			m.Set(o.Key, o.Off, o.Size)
			e.put(o.Off, o.Size, o.Role)
		case "D":
			got := m.Delete(o.Key)
			want := int32(0)
			if e.st == 1 {
				want = e.size
			}
			r.Eval(1)
			if got != want && got != -12345 {
				state := []string{"absent", "live", "already-deleted"}[e.st]
				sig := lib.Sig{"op": "delete", "class": "wrong-removed-size", "impl": c.Impl, "level": "valuemap",
					"input": inputClass(e, o.Role), "target": state, "build": build, "returned": "other"}
				if got < 0 {
					sig["returned"] = "negative"
				}
				if _, ok := aliasVictim(ref, o.Key); ok && e.st == 0 && got > 0 {
					sig["alias"] = aliasTag
					resyncAliases(m.Get, ref, o.Key)
				}
				if r.Violation(sig, map[string]interface{}{"msg": "Delete returned a wrong removed size (crossing run)", "got": got, "want": want, "at": i, "generator": "crossing"}) {
					return false
				}
			}
			if e.st == 1 {
				e.st = 2
			}
		}
		if !checkGet("valuemap", c.Impl, m.Get, ref, o.Key, o.Role, small) {
			return false
		}
		if i%1000 == 0 {
			for _, k := range c.CheckKeys {
				if !checkGet("valuemap", c.Impl, m.Get, ref, k, "", small) {
					return false
				}
			}
		}
	}
	for k := range ref {
		if !checkGet("valuemap", c.Impl, m.Get, ref, k, "", small) {
			return false
		}
	}
	return checkVisit(c.Impl, m, ref, small)
}

// genOps builds a random op sequence with the named key order. rawDelete: deletes may
// hit absent/deleted keys (value-map level); otherwise the caller filters them.
func genOps(rng *rand.Rand, gen string, n int, allowZero bool) ([]op, []uint64) {
	og := &offGen{next: 4096, rng: rng}
	var ops []op
	var keys []uint64
	known := map[uint64]bool{}
	add := func(k uint64, role string) {
		size := int32(1 + rng.Intn(100000))
		if allowZero && rng.Intn(25) == 0 {
			size = 0
		}
		ops = append(ops, op{Kind: "S", Key: k, Off: og.take(), Size: size, Role: role})
		if !known[k] {
			known[k] = true
			keys = append(keys, k)
		}
	}
	pick := func() uint64 { return keys[rng.Intn(len(keys))] }
	base := uint64(1 + rng.Intn(1000))
	cur := base + 50000
	top := cur + 40000
	ndesc := 0
	for len(ops) < n {
		x := rng.Intn(100)
		switch {
		case x < 60 || len(keys) == 0:
			switch gen {
			case "ascending":
				cur += uint64(1 + rng.Intn(5))
				add(cur, "ascending")
			case "descending":
				// every key below all section starts opens a new CompactSection (1.3 MB each): a bounded descending
				// run, then descending inside the covered range (holes left by the first run), which exercises
				// the look-back window and the overflow list from the other side
				if ndesc < 40 {
					ndesc++
					cur -= uint64(2 + rng.Intn(5))
					add(cur, "descending")
				} else {
					top -= uint64(1 + rng.Intn(3))
					if top <= cur {
						top = cur + 40000
					}
					add(top, "descending")
				}
			case "backjump-small":
				cur += uint64(2 + rng.Intn(5))
				if rng.Intn(4) == 0 {
					add(cur-uint64(1+2*rng.Intn(100)), "backjump<=128") // within the look-back window
				} else {
					add(cur, "ascending")
				}
			case "backjump-large":
				cur += uint64(2 + rng.Intn(5))
				if rng.Intn(4) == 0 && cur > base+50000+2000 {
					add(cur-uint64(700+rng.Intn(int(cur-base-50000-700))), "backjump>128")
				} else {
					add(cur, "ascending")
				}
			case "duplicates":
				if len(keys) > 3 && rng.Intn(2) == 0 {
					add(pick(), "duplicate")
				} else {
					cur += uint64(1 + rng.Intn(3))
					add(cur, "ascending")
				}
			case "span":
				// keys around multiples of 2^32 above a small base
				b := base + uint64(rng.Intn(4))<<32
				add(b+uint64(rng.Intn(6)), "beyond-span")
			}
		case x < 85:
			ops = append(ops, op{Kind: "D", Key: pick(), Role: "existing"})
		case x < 92:
			// delete / look up a key that was never inserted
			k := cur + 1000000 + uint64(rng.Intn(100))
			role := "absent"
			if gen == "span" {
				k = base + uint64(rng.Intn(5))<<32 + uint64(rng.Intn(6))
				role = "beyond-span"
			}
			ops = append(ops, op{Kind: "D", Key: k, Role: role})
		default:
			k := pick()
			role := "existing"
			if gen == "span" {
				k = base + uint64(rng.Intn(5))<<32 + uint64(rng.Intn(6))
				role = "beyond-span"
			}
			ops = append(ops, op{Kind: "G", Key: k, Role: role})
		}
	}
	// a small fixed set of keys checked after every op
	var check []uint64
	if gen == "span" {
		for h := 0; h < 5; h++ {
			for l := 0; l < 6; l++ {
				check = append(check, base+uint64(h)<<32+uint64(l))
			}
		}
	}
	return ops, check
}

func genCrossing(rng *rand.Rand, n int) ([]op, []uint64) {
	og := &offGen{next: 4096, rng: rng}
	var ops []op
	cur := uint64(5000)
	var keys []uint64
	for len(ops) < n {
		x := rng.Intn(100)
		switch {
		case x < 82:
			cur += uint64(1 + rng.Intn(3))
			ops = append(ops, op{Kind: "S", Key: cur, Off: og.take(), Size: int32(1 + rng.Intn(1000)), Role: "ascending"})
			if rng.Intn(50) == 0 {
				keys = append(keys, cur)
			}
		case x < 89 && len(keys) > 0:
			ops = append(ops, op{Kind: "S", Key: keys[rng.Intn(len(keys))], Off: og.take(), Size: int32(1 + rng.Intn(1000)), Role: "duplicate"})
		case x < 98 && len(keys) > 0:
			ops = append(ops, op{Kind: "D", Key: keys[rng.Intn(len(keys))], Role: "existing"})
		default:
			// back-jump anywhere below the current key (absent key with high probability):
			// goes to the overflow list of whatever section covers it, also of full sections
			k := 5000 + uint64(rng.Int63n(int64(cur-5000)+1))
			ops = append(ops, op{Kind: "S", Key: k, Off: og.take(), Size: int32(1 + rng.Intn(1000)), Role: "backjump>128"})
			if rng.Intn(5) == 0 {
				keys = append(keys, k)
			}
		}
	}
	if len(keys) > 200 {
		keys = keys[:200]
	}
	return ops, keys
}

// ---------------------------------------------------------------- level (ii): NeedleMapper over index files

type counters struct {
	FileCount    int    `json:"file_count"`
	DeletedCount int    `json:"deleted_count"`
	ContentSize  uint64 `json:"content_size"`
	DeletedSize  uint64 `json:"deleted_size"`
	MaxFileKey   uint64 `json:"max_file_key"`
}

func countersOf(nm storage.NeedleMapper) counters {
	return counters{nm.FileCount(), nm.DeletedCount(), nm.ContentSize(), nm.DeletedSize(), uint64(nm.MaxFileKey())}
}


// relation classifies (measurement only) how a reloaded counter relates to the live one
// for the bloom-filter based loader newNeedleMapMetricFromIndexFile.
func relation(name, loader string, hasZero bool, liveV, reV uint64, distinct, entries uint64, reFileCount uint64) string {
	if loader != "metricFromIndexFile" || hasZero {
		return "other"
	}
	tol := 1 + entries/200
	switch name {
	case "FileCount":
		if reV <= distinct && reV+tol >= distinct {
			return "reload-counts-distinct-keys"
		}
	case "DeletedCount":
		if entries >= distinct && reV >= entries-distinct && reV <= entries-distinct+tol {
			return "reload-counts-entries-minus-distinct-keys"
		}
	case "DeletedSize":
		if reV > liveV && reFileCount < distinct {
			return "bloom-false-positive"
		}
	}
	return "other"
}

var ldbOpts = &opt.Options{BlockCacheCapacity: 2 * 1024 * 1024, WriteBuffer: 1 * 1024 * 1024, CompactionTableSizeMultiplier: 10}

// openNm opens a needle map of the given kind over base.idx. The returned close function releases it:
// for the memory kind it closes the index file directly (NeedleMap.Close would fsync it first, which
// dominates the run time on a busy disk and is not under test here); the other kinds use their Close.
func openNm(kind, base string) (storage.NeedleMapper, func(), error) {
	f, err := os.OpenFile(base+".idx", os.O_RDWR|os.O_CREATE, 0644)
	if err != nil {
		return nil, nil, err
	}
	switch kind {
	case "memory":
		nm, err := storage.LoadCompactNeedleMap(f)
		return nm, func() { f.Close() }, err
	case "leveldb":
		nm, err := storage.NewLevelDbNeedleMap(base+".ldb", f, ldbOpts)
		if err != nil {
			return nil, nil, err
		}
		return nm, nm.Close, nil
	case "sorted":
		nm, err := storage.NewSortedFileNeedleMap(base, f)
		if err != nil {
			return nil, nil, err
		}
		return nm, nm.Close, nil
	}
	return nil, nil, fmt.Errorf("unknown kind %s", kind)
}

func copyFile(src, dst string) error {
	in, err := os.Open(src)
	if err != nil {
		return err
	}
	defer in.Close()
	out, err := os.Create(dst)
	if err != nil {
		return err
	}
	_, err = io.Copy(out, in)
	if e := out.Close(); err == nil {
		err = e
	}
	return err
}

type nmcase struct {
	Part  string `json:"part"` // "needlemap"
	Kind  string `json:"kind"` // live map kind: memory | leveldb
	Build string `json:"build"`
	Ops   []op   `json:"ops"`
	// Reload kinds to compare against at the end of the sequence
	Reload []string `json:"reload"`
	// SortedDeletes: keys deleted through the sorted map after it was loaded
	SortedDeletes []uint64 `json:"sorted_deletes,omitempty"`
}

func nmGet(nm storage.NeedleMapper) func(uint64) (int64, int32, bool) {
	return func(k uint64) (int64, int32, bool) {
		v, ok := nm.Get(types.NeedleId(k))
		if !ok || v == nil {
			return 0, 0, false
		}
		return v.Offset.ToActualOffset(), int32(v.Size), true
	}
}

var nmDirSeq int

func runNmCase(c nmcase, dir string) (res bool) {
	logCase(c, len(c.Ops) <= 8)
	defer guard(c, "needlemap")
	return runNmCaseQuiet(c, dir)
}

// runNmCaseQuiet: the case file was written by the caller (large op lists)
func runNmCaseQuiet(c nmcase, dir string) bool {
	nmDirSeq++
	base := filepath.Join(dir, fmt.Sprintf("n%d", nmDirSeq))
	defer func() {
		matches, _ := filepath.Glob(base + "*")
		for _, m := range matches {
			os.RemoveAll(m)
		}
	}()
	nm, closeNm, err := openNm(c.Kind, base)
	r.Must(err, "open needle map "+c.Kind)
	defer closeNm()
	ref := refMap{}
	keys := map[uint64]bool{}
	rawDelete := false  // a delete hit a key that is not live with size>0 (a Volume never issues that)
	hasZero := false    // some put had size 0
	putKeys := map[uint64]bool{}
	okAll := true
	for _, o := range c.Ops {
		e := ref.get(o.Key)
		keys[o.Key] = true
		switch o.Kind {
		case "S":
			if err := nm.Put(types.NeedleId(o.Key), types.ToOffset(o.Off), types.Size(o.Size)); err != nil {
				r.Must(err, "NeedleMapper.Put")
			}
			putKeys[o.Key] = true
			if o.Size == 0 {
				hasZero = true
			}
			e.put(o.Off, o.Size, o.Role)
			r.Count("nm_put", 1)
			countBoundary("nm", o.Off)
		case "D":
			if !(e.st == 1 && e.size > 0) {
				rawDelete = true
				r.Count("nm_raw_delete", 1)
			}
			if err := nm.Delete(types.NeedleId(o.Key), types.ToOffset(o.Off)); err != nil {
				r.Must(err, "NeedleMapper.Delete")
			}
			if e.st == 1 {
				e.st = 2
			} else if _, ok := aliasVictim(ref, o.Key); ok && e.st == 0 {
				// deleting an absent key that aliases a stored one: see whether the stored keys survived
				hit := false
				for k2, e2 := range ref {
					if k2 != o.Key && e2.st == 1 && (o.Key-k2)%(1<<32) == 0 {
						if _, sz, ok2 := nmGet(nm)(k2); !ok2 || isDeletedSize(sz) {
							hit = true
						}
					}
				}
				if hit {
					r.Eval(1)
					sig := lib.Sig{"op": "delete", "class": "deleted-another-key", "impl": c.Kind, "level": "needlemap", "alias": aliasTag, "build": build}
					if r.Violation(sig, map[string]interface{}{"msg": "deleting a key that was never inserted removed another key", "deleted_key": o.Key, "case": c}) {
						okAll = false
					}
					resyncAliases(nmGet(nm), ref, o.Key)
				}
			}
			r.Count("nm_delete", 1)
		}
		if !checkGet("needlemap", c.Kind, nmGet(nm), ref, o.Key, o.Role, c) {
			okAll = false
		}
	}
	for k := range keys {
		if !checkGet("needlemap", c.Kind, nmGet(nm), ref, k, "", c) {
			okAll = false
		}
	}
	if !okAll {
		return false
	}
	live := countersOf(nm)
	// does the sequence contain two keys congruent modulo 2^32? (classification of reload differences only)
	congruent := false
	{
		low := map[uint64]int{}
		for k := range keys {
			low[k%(1<<32)]++
			if low[k%(1<<32)] > 1 {
				congruent = true
			}
		}
	}

	// reload: a map freshly loaded from a copy of the same .idx
	for _, rk := range c.Reload {
		nmDirSeq++
		base2 := filepath.Join(dir, fmt.Sprintf("n%d", nmDirSeq))
		r.Must(copyFile(base+".idx", base2+".idx"), "copy idx")
		nm2, closeNm2, err := openNm(rk, base2)
		r.Must(err, "reload needle map "+rk)
		loader := "doLoading"
		if rk != "memory" {
			loader = "metricFromIndexFile"
		}
		// lookups: live and reloaded must agree (normalised to live(offset,size) | not-live)
		differed := map[uint64]bool{}
		for k := range keys {
			if ref.get(k).st == 0 {
				// never inserted: judged against the reference (a foreign entry in either map is reported there)
				if !checkGet("needlemap", rk, nmGet(nm2), ref, k, "", c) {
					okAll = false
				}
				continue
			}
			o1, s1, ok1 := nmGet(nm)(k)
			o2, s2, ok2 := nmGet(nm2)(k)
			l1 := ok1 && !isDeletedSize(s1)
			l2 := ok2 && !isDeletedSize(s2)
			r.Eval(1)
			if l1 != l2 || (l1 && (o1 != o2 || s1 != s2)) {
				e := ref.get(k)
				differed[k] = true
				sig := lib.Sig{"op": "reload", "class": "lookup-differs", "live_kind": c.Kind, "reload_kind": rk, "level": "needlemap",
					"input": inputClass(e, ""), "build": build}
				if l1 && l2 {
					// either side may hold the stale byte (the section layout differs between running and replayed map)
					d := offsetDifference(o2, e.off, s2, e.size, e.earlierHigh)
					if o2 == e.off {
						d = offsetDifference(o1, e.off, s1, e.size, e.earlierHigh)
					}
					sig["difference"] = d
				}
				if congruent && (c.Kind == "memory" || rk == "memory") && !e.zero {
					sig["alias"] = aliasTag // a key that was put with size>0 differs and the sequence holds a key congruent modulo 2^32
				}
				if r.Violation(sig, map[string]interface{}{"msg": "lookup after reload differs from the live map", "key": k,
					"live": []interface{}{ok1, o1, s1}, "reloaded": []interface{}{ok2, o2, s2}, "case": c}) {
					okAll = false
				}
			}
		}
		// counters
		re := countersOf(nm2)
		if rawDelete {
			if re != live {
				r.Count("counter_diff_after_raw_delete(recorded,not judged)", 1)
			}
		} else {
			cmp := func(name string, a, b uint64) {
				r.Eval(1)
				if a == b {
					return
				}
				sig := lib.Sig{"op": "reload", "class": "counter-differs", "counter": name, "loader": loader, "level": "needlemap", "build": build}
				sig["input"] = "plain"
				if hasZero {
					sig["input"] = "size-zero"
				}
				// measured relation between the two values (classification only)
				entries := uint64(0)
				if st, err := os.Stat(base + ".idx"); err == nil {
					entries = uint64(st.Size()) / uint64(types.NeedleMapEntrySize)
				}
				rel := relation(name, loader, hasZero, a, b, uint64(len(putKeys)), entries, uint64(re.FileCount))
				sig["relation"] = rel
				if congruent && loader == "doLoading" && !(hasZero && (name == "FileCount" || name == "DeletedCount")) {
					sig["alias"] = aliasTag // FileCount/DeletedCount differences of size-0 sequences belong to the size-zero entries
				}
				if r.Violation(sig, map[string]interface{}{"msg": "counter after reload differs from the live counter", "counter": name,
					"live": live, "reloaded": re, "live_kind": c.Kind, "reload_kind": rk, "case": c}) {
					okAll = false
				}
			}
			cmp("FileCount", uint64(live.FileCount), uint64(re.FileCount))
			cmp("DeletedCount", uint64(live.DeletedCount), uint64(re.DeletedCount))
			cmp("ContentSize", live.ContentSize, re.ContentSize)
			cmp("DeletedSize", live.DeletedSize, re.DeletedSize)
			cmp("MaxFileKey", live.MaxFileKey, re.MaxFileKey)
			r.Count("nm_counter_checkpoints_"+rk, 1)
		}

		if rk == "sorted" && len(c.SortedDeletes) > 0 {
			// the deletes through the sorted map are judged against the state the sorted map was loaded with:
			// a copy of the reference in which every key already reported above as "live != reloaded" follows the reloaded map
			ref2 := refMap{}
			for k, e := range ref {
				cp := *e
				ref2[k] = &cp
			}
			for k := range differed {
				o2, s2, ok2 := nmGet(nm2)(k)
				e := ref2.get(k)
				if ok2 && !isDeletedSize(s2) {
					e.st, e.off, e.size = 1, o2, s2
				} else if e.st == 1 {
					e.st = 2
				}
			}
			okAll = sortedDeletes(c, nm2, closeNm2, base2, ref2, keys) && okAll // closes nm2
		} else {
			closeNm2()
		}
		matches, _ := filepath.Glob(base2 + "*")
		for _, m := range matches {
			os.RemoveAll(m)
		}
	}
	return okAll
}

// sortedDeletes: deletions through the sorted read-only map (the path of a volume whose
// .dat lives on a remote tier: noWriteCanDelete), then a second reload.
func sortedDeletes(c nmcase, nm storage.NeedleMapper, closeNm func(), base string, ref refMap, keys map[uint64]bool) bool {
	okAll := true
	indeterminate := map[uint64]bool{} // keys whose delete returned an error: their state after a reload is not judged
	// keys of the first len(SortedDeletes) .idx entries (every S/D of the live memory map appends one): the sorted map's
	// index offset starts at 0 and advances by one entry per delete, so these are the entries its tombstones overwrite
	leading := map[uint64]bool{}
	nEntries := 0
	for _, o := range c.Ops {
		if (o.Kind == "S" || o.Kind == "D") && nEntries < len(c.SortedDeletes) {
			leading[o.Key] = true
			nEntries++
		}
	}
	for _, k := range c.SortedDeletes {
		e := ref.get(k)
		err := nm.Delete(types.NeedleId(k), types.ToOffset(8*1024*1024))
		r.Eval(1)
		r.Count("sorted_delete", 1)
		if err != nil {
			indeterminate[k] = true
			if e.st == 1 {
				sig := lib.Sig{"op": "delete", "class": "delete-error", "impl": "sorted", "level": "needlemap", "input": inputClass(e, ""), "build": build}
				if strings.Contains(err.Error(), "bad file descriptor") {
					sig["error"] = "sdx-not-writable"
				} else {
					sig["error"] = "other"
				}
				if r.Violation(sig, map[string]interface{}{"msg": "deleting a live key through the sorted map failed: " + err.Error(), "key": k, "case": c}) {
					okAll = false
				}
			}
		} else if e.st == 1 {
			e.st = 2
		}
		if !indeterminate[k] && !checkGet("needlemap", "sorted", nmGet(nm), ref, k, "", c) {
			okAll = false
		}
	}
	// the other keys must be unaffected
	for k := range keys {
		if !indeterminate[k] && !checkGet("needlemap", "sorted", nmGet(nm), ref, k, "", c) {
			okAll = false
		}
	}
	// reload once more from the (possibly appended) index
	closeNm()
	nm3, closeNm3, err := openNm("sorted", base)
	r.Must(err, "second reload of sorted map")
	var ks []uint64
	for k := range keys {
		ks = append(ks, k)
	}
	sort.Slice(ks, func(i, j int) bool { return ks[i] < ks[j] })
	for _, k := range ks {
		if indeterminate[k] {
			continue
		}
		e := ref.get(k)
		o2, s2, ok2 := nmGet(nm3)(k)
		l2 := ok2 && !isDeletedSize(s2)
		r.Eval(1)
		want := e.st == 1
		if l2 != want || (want && (o2 != e.off || s2 != e.size)) {
			sig := lib.Sig{"op": "reload", "class": "lookup-differs", "live_kind": "sorted", "reload_kind": "sorted", "level": "needlemap",
				"input": inputClass(e, ""), "after": "sorted-delete", "build": build, "victim": "other"}
			if leading[k] {
				sig["victim"] = "key-of-an-overwritten-leading-idx-entry"
			}
			if r.Violation(sig, map[string]interface{}{"msg": "a key that was not touched by the deletes through the sorted map reads differently after reloading",
				"key": k, "reloaded": []interface{}{ok2, o2, s2}, "ref_state": e.st, "ref_off": e.off, "ref_size": e.size, "case": c}) {
				okAll = false
			}
		}
	}
	closeNm3()
	return okAll
}

func needleMapPart() {
	dir := r.SubDir("nm")
	keys := []uint64{7, 3, 7 + 1<<32}
	roles := []string{"plain", "smaller-than-first", "beyond-span"}
	type tmpl struct {
		kind string
		ki   int
		zero bool
	}
	var alpha, alphaZ []tmpl
	for i := range keys {
		alpha = append(alpha, tmpl{"S", i, false}, tmpl{"D", i, false})
	}
	alphaZ = append(alphaZ, alpha...)
	for i := range keys {
		alphaZ = append(alphaZ, tmpl{"S", i, true})
	}
	for _, kind := range []string{"memory", "leveldb"} {
		for pass, al := range [][]tmpl{alpha, alphaZ} {
			maxLen := r.Pick(3, 4)
			if pass == 1 {
				maxLen = r.Pick(3, 4)
			}
			if kind == "leveldb" {
				maxLen = r.Pick(2, 3)
			}
			n := 0
			enumerate(make([]op, len(al)), maxLen, func(seq []int) bool {
				if pass == 1 {
					hasZ := false
					for _, x := range seq {
						hasZ = hasZ || al[x].zero
					}
					if !hasZ {
						return true // enumerated by pass 0
					}
				}
				og := &offGen{next: 64, rng: rand.New(rand.NewSource(int64(n)))}
				c := nmcase{Part: "needlemap", Kind: kind, Build: build}
				key := kind
				nontriv := false
				for _, s := range seq {
					t := al[s]
					o := op{Kind: t.kind, Key: keys[t.ki], Role: roles[t.ki], Off: og.take()}
					if t.kind == "S" {
						if !t.zero {
							o.Size = int32(1 + og.rng.Intn(5000))
						}
						nontriv = true
					}
					c.Ops = append(c.Ops, o)
					key += fmt.Sprintf("/%d", s)
				}
				c.Reload = []string{"memory"}
				if kind == "leveldb" {
					c.Reload = []string{"leveldb"}
				} else if n%16 == 0 {
					c.Reload = []string{"memory", "sorted"}
					c.SortedDeletes = []uint64{keys[n/16%len(keys)]}
				}
				n++
				runNmCase(c, dir)
				if nontriv {
					r.Nontrivial("nm-exh/" + build + "/" + fmt.Sprint(pass) + "/" + key)
				}
				if n == 100 {
					r.Sample(c)
				}
				return r.Violations() < 20
			})
			r.Count("nm_exhaustive_sequences_"+kind, int64(n))
		}
	}
	r.Note(build+".needlemap_exhaustive", fmt.Sprintf("memory: all sequences of <=%d ops (Put/Delete) and <=%d (with size-0 puts) over keys {7,3,7+2^32}; leveldb: <=%d ops; counters and lookups compared with a fresh load of the same .idx at the end of every sequence",
		r.Pick(3, 4), r.Pick(3, 4), r.Pick(2, 3)))

	// one large all-distinct sequence: the bloom filter of newNeedleMapMetricFromIndexFile (0.1 % false positives at
	// capacity) is expected to miscount; whatever it does is measured, not assumed
	{
		rng := r.SubRng("c05-nm-bloom")
		og := &offGen{next: 4096, rng: rng}
		c := nmcase{Part: "needlemap", Kind: "memory", Build: build, Reload: []string{"sorted"}}
		k := uint64(100)
		for i := 0; i < 20000; i++ {
			k += uint64(1 + rng.Intn(3))
			c.Ops = append(c.Ops, op{Kind: "S", Key: k, Off: og.take(), Size: int32(1 + rng.Intn(1000)), Role: "ascending"})
		}
		small := c
		small.Ops = nil
		r.Case(map[string]interface{}{"part": "needlemap", "generator": "bloom: 20000 distinct ascending keys, no deletes", "case": small})
		runNmCaseQuiet(c, dir)
		r.Nontrivial("nm-bloom/" + build)
		r.Count("nm_bloom_sequences", 1)
	}

	// random sequences: <=500 keys where counters of the bloom-filter loaders are compared
	nseq := r.Pick(12, 60)
	gens := []string{"ascending", "descending", "backjump-small", "backjump-large", "duplicates", "span"}
	for s := 0; s < nseq; s++ {
		gen := gens[s%len(gens)]
		kind := "memory"
		if s%4 == 3 {
			kind = "leveldb"
		}
		rng := r.SubRng(fmt.Sprintf("c05-nm-%d", s))
		nops := 600
		if s%6 >= 3 && kind == "memory" {
			nops = 3000
		}
		ops, _ := genOps(rng, gen, nops, s%2 == 0)
		// shape the sequence the way a Volume drives its map: deletes only on live keys with size>0
		// (every third sequence keeps the raw deletes: lookups are still judged, counters are not)
		if s%3 != 2 {
			st := map[uint64]int32{}
			var f []op
			for _, o := range ops {
				switch o.Kind {
				case "S":
					st[o.Key] = o.Size
					f = append(f, o)
				case "D":
					if sz, ok := st[o.Key]; ok && sz > 0 {
						delete(st, o.Key)
						o.Off = 8 * int64(100000+len(f))
						f = append(f, o)
					}
				default:
					f = append(f, o)
				}
			}
			ops = f
		} else {
			for i := range ops {
				if ops[i].Kind == "D" {
					ops[i].Off = 8 * int64(100000+i)
				}
			}
		}
		c := nmcase{Part: "needlemap", Kind: kind, Build: build, Ops: ops}
		switch {
		case kind == "leveldb":
			c.Reload = []string{"leveldb", "memory"}
		case nops <= 600:
			c.Reload = []string{"memory", "sorted", "leveldb"}
			// a few deletes through the sorted map
			seen := map[uint64]bool{}
			for _, o := range ops {
				if o.Kind == "S" && !seen[o.Key] && len(c.SortedDeletes) < 3 && rng.Intn(20) == 0 {
					seen[o.Key] = true
					c.SortedDeletes = append(c.SortedDeletes, o.Key)
				}
			}
		default:
			c.Reload = []string{"memory"}
		}
		runNmCase(c, dir)
		r.Nontrivial(fmt.Sprintf("nm-rand/%s/%s/%s/%d", build, kind, gen, s))
		r.Count("nm_random_sequences_"+kind, 1)
		if r.Violations() >= 20 {
			break
		}
	}
}

// ---------------------------------------------------------------- level (iii): whole volumes

type volcase struct {
	Part  string `json:"part"` // "volume"
	Kind  string `json:"kind"`
	Build string `json:"build"`
	Ops   []op   `json:"ops"` // S: Size = payload length; D; R = close + reopen with comparison
}

type volRef struct {
	st     int
	data   []byte
	cookie uint32
	nsize  int32 // needle Size as stored (returned by delete)
	role   string
}

type readRes struct {
	Class  string `json:"class"` // ok | notfound | deleted | error:<text>
	Len    int    `json:"len"`
	Sum    uint32 `json:"sum"`
	Cookie uint32 `json:"cookie"`
}

func volRead(s *storage.Store, vid needle.VolumeId, key uint64) (readRes, []byte) {
	n := &needle.Needle{Id: types.NeedleId(key), Cookie: 0x5eed5eed}
	_, err := s.ReadVolumeNeedle(vid, n, nil)
	switch {
	case err == nil:
		return readRes{Class: "ok", Len: len(n.Data), Sum: needle.NewCRC(n.Data).Value(), Cookie: uint32(n.Cookie)}, n.Data
	case err == storage.ErrorNotFound:
		return readRes{Class: "notfound"}, nil
	case err == storage.ErrorDeleted:
		return readRes{Class: "deleted"}, nil
	}
	return readRes{Class: "error:" + err.Error()}, nil
}

func volAlias(ref map[uint64]*volRef, key uint64) (uint64, bool) {
	for k, e := range ref {
		if e.st != 0 && k < key && (key-k)%(1<<32) == 0 {
			return k, true
		}
	}
	return 0, false
}

func volCounters(v *storage.Volume) counters {
	return counters{int(v.FileCount()), int(v.DeletedCount()), v.ContentSize(), v.DeletedSize(), uint64(v.MaxFileKey())}
}

func runVolCase(c volcase) bool {
	r.Case(c)
	kind := storage.NeedleMapInMemory
	if c.Kind == "leveldb" {
		kind = storage.NeedleMapLevelDb
	}
	dir := r.SubDir("vol")
	defer os.RemoveAll(dir)
	s := lib.OpenStore(dir, kind)
	defer func() { s.Close() }()
	vid := needle.VolumeId(5)
	r.Must(s.AddVolume(vid, "", kind, "000", "", 0, 0, types.HardDriveType), "AddVolume")
	ref := map[uint64]*volRef{}
	get := func(k uint64) *volRef {
		e := ref[k]
		if e == nil {
			e = &volRef{}
			ref[k] = e
		}
		return e
	}
	hasZero := false
	aliasDelete := false // a (listed) aliasing delete happened: the .idx now holds a tombstone of a key that never existed
	putKeys := map[uint64]bool{}
	rng := rand.New(rand.NewSource(int64(len(c.Ops))))
	okAll := true
	inClass := func(e *volRef) string {
		if e.st != 0 && len(e.data) == 0 {
			return "size-zero"
		}
		if e.role == "beyond-span" {
			return "key-beyond-section-span"
		}
		return "plain"
	}
	checkRead := func(k uint64, after string) {
		e := get(k)
		res, data := volRead(s, vid, k)
		r.Eval(1)
		viol := func(class, msg string) {
			sig := lib.Sig{"op": "get", "class": class, "impl": c.Kind, "level": "volume", "input": inClass(e), "build": build}
			if class == "foreign-entry" {
				if _, ok := volAlias(ref, k); ok {
					sig["alias"] = aliasTag
				}
			}
			if r.Violation(sig, map[string]interface{}{"msg": msg, "key": k, "read": res, "ref_state": e.st, "ref_len": len(e.data), "after": after, "case": c}) {
				okAll = false
			}
		}
		switch e.st {
		case 0:
			if res.Class == "ok" {
				viol("foreign-entry", "read of a never-written key succeeded")
			}
		case 1:
			if res.Class != "ok" {
				viol("live-key-missing", "read of a live key failed: "+res.Class)
				e.st = 0
			} else if !bytes.Equal(data, e.data) {
				viol("stale-entry", "read of a live key returned other data than the latest write")
			}
		case 2:
			if res.Class == "ok" {
				viol("deleted-reported-live", "read of a deleted key succeeded")
				e.st = 1
			}
		}
	}
	for i, o := range c.Ops {
		switch o.Kind {
		case "S":
			e := get(o.Key)
			data := make([]byte, o.Size)
			rng.Read(data)
			cookie := uint32(0xc0000000 + o.Key%1000)
			if e.st != 0 {
				cookie = e.cookie
			}
			n := lib.MakeNeedle(lib.BlobSpec{Key: o.Key, Cookie: cookie, Data: data, Name: "f"}, 1600000000)
			_, err := s.WriteVolumeNeedle(vid, n, false)
			r.Eval(1)
			if err != nil {
				// a write may be refused only for a reason the reference knows (none here)
				sig := lib.Sig{"op": "put", "class": "write-refused", "impl": c.Kind, "level": "volume", "input": inClass(&volRef{st: 1, data: data, role: o.Role}), "build": build}
				if _, ok := volAlias(ref, o.Key); ok && e.st == 0 && strings.Contains(err.Error(), "mismatching cookie") {
					sig["alias"] = aliasTag
				}
				if r.Violation(sig, map[string]interface{}{"msg": "write refused: " + err.Error(), "key": o.Key, "at": i, "case": c}) {
					okAll = false
				}
				break
			}
			*e = volRef{st: 1, data: data, cookie: cookie, nsize: int32(n.Size), role: o.Role}
			if o.Size == 0 {
				hasZero = true
			}
			putKeys[o.Key] = true
			r.Count("vol_write", 1)
		case "D":
			e := get(o.Key)
			n := &needle.Needle{Id: types.NeedleId(o.Key), Cookie: types.Cookie(e.cookie)}
			size, err := s.DeleteVolumeNeedle(vid, n)
			r.Eval(1)
			want := int32(0)
			if e.st == 1 {
				want = e.nsize
			}
			if err != nil || int32(size) != want {
				e2 := &volRef{st: e.st, data: e.data, role: o.Role}
				sig := lib.Sig{"op": "delete", "class": "wrong-removed-size", "impl": c.Kind, "level": "volume", "input": inClass(e2), "build": build,
					"target": []string{"absent", "live", "already-deleted"}[e.st], "returned": "other"}
				if _, ok := volAlias(ref, o.Key); ok && e.st == 0 && size > 0 {
					sig["alias"] = aliasTag
					aliasDelete = true
					for k2, e2 := range ref {
						if k2 != o.Key && e2.st != 0 && (o.Key-k2)%(1<<32) == 0 {
							if res, _ := volRead(s, vid, k2); res.Class == "ok" {
								e2.st = 1
							} else {
								e2.st = 2
							}
						}
					}
				}
				if r.Violation(sig, map[string]interface{}{"msg": "delete returned a wrong size", "got": size, "want": want, "err": fmt.Sprint(err), "key": o.Key, "at": i, "case": c}) {
					okAll = false
				}
			}
			if e.st == 1 && len(e.data) > 0 {
				e.st = 2
			} else if e.st == 1 {
				e.st = 2 // the reference deletes empty blobs too; the read check below reports what the store does
			}
			r.Count("vol_delete", 1)
		case "R":
			v := s.GetVolume(vid)
			before := volCounters(v)
			idxEntries := v.IndexFileSize() / uint64(types.NeedleMapEntrySize)
			reads := map[uint64]readRes{}
			for k := range ref {
				reads[k], _ = volRead(s, vid, k)
			}
			s.Close()
			s = lib.OpenStore(dir, kind)
			v = s.GetVolume(vid)
			if v == nil {
				r.Violation(lib.Sig{"op": "reload", "class": "volume-missing", "level": "volume", "build": build}, c)
				return false
			}
			after := volCounters(v)
			cmp := func(name string, a, b uint64) {
				r.Eval(1)
				if a == b {
					return
				}
				loader := "doLoading"
				if c.Kind == "leveldb" {
					loader = "metricFromIndexFile"
				}
				sig := lib.Sig{"op": "reload", "class": "counter-differs", "counter": name, "loader": loader, "level": "volume", "build": build, "input": "plain", "relation": "other"}
				if hasZero {
					sig["input"] = "size-zero"
				}
				sig["relation"] = relation(name, loader, hasZero, a, b, uint64(len(putKeys)), idxEntries, uint64(after.FileCount))
				if aliasDelete && loader == "doLoading" && !(hasZero && (name == "FileCount" || name == "DeletedCount")) {
					sig["alias"] = aliasTag
				}
				if r.Violation(sig, map[string]interface{}{"msg": "volume counter after reopen differs", "counter": name, "before": before, "after": after, "at": i, "case": c}) {
					okAll = false
				}
			}
			cmp("FileCount", uint64(before.FileCount), uint64(after.FileCount))
			cmp("DeletedCount", uint64(before.DeletedCount), uint64(after.DeletedCount))
			cmp("ContentSize", before.ContentSize, after.ContentSize)
			cmp("DeletedSize", before.DeletedSize, after.DeletedSize)
			cmp("MaxFileKey", before.MaxFileKey, after.MaxFileKey)
			for k, b := range reads {
				a, _ := volRead(s, vid, k)
				r.Eval(1)
				bl, al := b.Class == "ok", a.Class == "ok"
				if bl != al || (bl && (a.Len != b.Len || a.Sum != b.Sum)) {
					e := get(k)
					sig := lib.Sig{"op": "reload", "class": "lookup-differs", "live_kind": c.Kind, "reload_kind": c.Kind, "level": "volume", "input": inClass(e), "build": build}
					if c.Kind == "memory" && inClass(e) != "size-zero" {
						for k2 := range ref {
							if k2 != k && (k2%(1<<32)) == (k%(1<<32)) {
								sig["alias"] = aliasTag // the history holds another key congruent modulo 2^32 (memory map: aliasing defect)
							}
						}
					}
					if r.Violation(sig, map[string]interface{}{"msg": "read after reopen differs from read before", "key": k, "before": b, "after": a, "at": i, "case": c}) {
						okAll = false
					}
					if !al && e.st == 1 {
						e.st = 0
					}
				}
			}
			r.Count("vol_reopen_checkpoints", 1)
			continue
		}
		checkRead(o.Key, o.Kind)
		if !okAll {
			return false
		}
	}
	return okAll
}

func volumePart() {
	nseq := r.Pick(6, 24)
	for s := 0; s < nseq; s++ {
		kind := "memory"
		if s%3 == 2 {
			kind = "leveldb"
		}
		rng := r.SubRng(fmt.Sprintf("c05-vol-%d", s))
		withZero := s%2 == 1
		withSpan := s%3 == 1
		c := volcase{Part: "volume", Kind: kind, Build: build}
		base := uint64(1 + rng.Intn(50))
		var keys []uint64
		nops := r.Pick(150, 400)
		cur := base + 1000
		for i := 0; i < nops; i++ {
			x := rng.Intn(100)
			switch {
			case x < 50:
				var k uint64
				role := "plain"
				switch rng.Intn(5) {
				case 0:
					if len(keys) > 0 {
						k = keys[rng.Intn(len(keys))]
						break
					}
					fallthrough
				case 1:
					k = base + uint64(rng.Intn(1000)) // out of order, below
				default:
					cur += uint64(1 + rng.Intn(4))
					k = cur
				}
				if withSpan && rng.Intn(4) == 0 {
					k = base + uint64(rng.Intn(3))<<32 + uint64(rng.Intn(4))
					role = "beyond-span"
				}
				size := int32(1 + rng.Intn(3000))
				if withZero && rng.Intn(8) == 0 {
					size = 0
				}
				c.Ops = append(c.Ops, op{Kind: "S", Key: k, Size: size, Role: role})
				keys = append(keys, k)
			case x < 80 && len(keys) > 0:
				c.Ops = append(c.Ops, op{Kind: "D", Key: keys[rng.Intn(len(keys))]})
			case x < 88:
				k := base + 5000 + uint64(rng.Intn(50))
				role := "absent"
				if withSpan {
					k = base + uint64(rng.Intn(4))<<32 + uint64(rng.Intn(4))
					role = "beyond-span"
				}
				c.Ops = append(c.Ops, op{Kind: "D", Key: k, Role: role})
			case x < 94:
				k := base + 5000 + uint64(rng.Intn(50))
				role := "absent"
				if withSpan {
					k = base + uint64(rng.Intn(4))<<32 + uint64(rng.Intn(4))
					role = "beyond-span"
				}
				c.Ops = append(c.Ops, op{Kind: "G", Key: k, Role: role})
			default:
				c.Ops = append(c.Ops, op{Kind: "R"})
			}
		}
		c.Ops = append(c.Ops, op{Kind: "R"})
		runVolCase(c)
		r.Nontrivial(fmt.Sprintf("vol/%s/%s/%d", build, kind, s))
		r.Count("vol_sequences_"+kind, 1)
		if s == 0 {
			short := c
			short.Ops = c.Ops[:10]
			r.Sample(map[string]interface{}{"volume_history_prefix": short})
		}
		if r.Violations() >= 20 {
			break
		}
	}
}

// ---------------------------------------------------------------- main

func main() {
	r = lib.Start("C05", "exploration")
	debug.SetGCPercent(400) // every CompactSection is a 1.3 MB allocation; the live heap is a few MB
	r.SetRule("op sequences (Set/Put, Delete, Get, reopen) against (i) CompactMap/MemDb, (ii) NeedleMapper kinds memory/leveldb/sorted over real .idx files, (iii) whole volumes; every lookup compared with a reference map, delete return values with the live size, counters+lookups of the live map with a map freshly loaded from the same .idx; bounded-exhaustive over 4 keys with distinct roles (existing / look-back window / overflow / beyond end; beyond the 2^32 section span) plus seeded random sequences with key orders ascending, descending, back-jumps <=128 and >128, duplicates, 2^32-span, 100000-entry batch crossing; both offset widths. distinct = distinct (build, level, implementation, op sequence); non-trivial = sequence contains at least one insertion")
	r.Assume("a key counts as 'reported deleted' when Get returns not-found or a size with IsDeleted(); live and reloaded lookups are compared after this normalisation")
	r.Assume("counter equality live-vs-reloaded is judged only for sequences a Volume can issue (deletes only on keys that are live with size>0); raw NeedleMapper deletes of absent/deleted keys are judged on lookups only")
	r.Assume("offsets are synthetic at levels (i)/(ii) (5-byte build: 5th byte non-zero; one put in four uses an exact multiple of 32 GiB - low four offset bytes zero - or its neighbour one padding unit below/above); real at level (iii) (volumes of a few hundred KiB, 5th byte zero)")
	r.Note("build_of_this_process", build)
	r.Count("build_"+build, 1)

	if r.Replay != "" {
		var head struct {
			Case struct {
				Part  string `json:"part"`
				Build string `json:"build"`
			} `json:"case"`
		}
		r.Must(r.LoadReplay(&head), "load replay")
		if head.Case.Build != "" && head.Case.Build != build && os.Getenv("VERIF_CHILD_OUT") == "" {
			// the case belongs to the other offset width: hand it to that binary
			bin := os.Getenv("VERIF_BIN_5B")
			if build == "5bytes" || bin == "" {
				r.Inconclusive("replay needs the " + head.Case.Build + " build of the driver")
				r.Finish(0)
			}
			r.RunChild("5bytes-replay", bin, nil, "--replay", r.Replay)
			r.Finish(0)
		}
		switch head.Case.Part {
		case "valuemap":
			var d struct {
				Case vcase `json:"case"`
			}
			r.Must(r.LoadReplay(&d), "load replay")
			runValueCase(d.Case)
		case "needlemap":
			var d struct {
				Case nmcase `json:"case"`
			}
			r.Must(r.LoadReplay(&d), "load replay")
			runNmCase(d.Case, r.SubDir("nm"))
		case "volume":
			var d struct {
				Case volcase `json:"case"`
			}
			r.Must(r.LoadReplay(&d), "load replay")
			runVolCase(d.Case)
		default:
			r.Inconclusive("replay file has no case.part")
		}
		r.Finish(0)
	}

	if pf := os.Getenv("C05_CPUPROFILE"); pf != "" { // developer aid only: profile one process
		if f, err := os.Create(pf); err == nil {
			_ = pprof.StartCPUProfile(f)
			defer pprof.StopCPUProfile()
		}
	}
	// the other offset width runs as a child process at the same time (its counts are merged at the end)
	childDone := make(chan struct{})
	isParent := os.Getenv("VERIF_CHILD_OUT") == "" && types.OffsetSize == 4
	if isParent {
		bin := os.Getenv("VERIF_BIN_5B")
		if bin == "" {
			r.Inconclusive("5BytesOffset build of the driver not available (VERIF_BIN_5B unset)")
			close(childDone)
		} else {
			go func() {
				defer close(childDone)
				r.RunChild("5bytes", bin, nil)
			}()
		}
	}
	t0 := time.Now()
	valueMapPart()
	t1 := time.Now()
	fmt.Fprintf(os.Stderr, "c05[%s]: valuemap part %.1fs\n", build, t1.Sub(t0).Seconds())
	needleMapPart()
	t2 := time.Now()
	fmt.Fprintf(os.Stderr, "c05[%s]: needlemap part %.1fs\n", build, t2.Sub(t1).Seconds())
	volumePart()
	fmt.Fprintf(os.Stderr, "c05[%s]: volume part %.1fs\n", build, time.Since(t2).Seconds())
	r.Note(build+".wall_s_per_part(valuemap,needlemap,volume)", []float64{t1.Sub(t0).Seconds(), t2.Sub(t1).Seconds(), time.Since(t2).Seconds()})

	for _, name := range []string{"vm_set", "vm_delete", "nm_put", "nm_delete", "vol_write", "vol_delete", "vol_reopen_checkpoints", "nm_counter_checkpoints_memory", "nm_counter_checkpoints_leveldb", "nm_counter_checkpoints_sorted"} {
		if r.Counter(name) == 0 {
			r.Inconclusive("nothing observed for " + name)
		}
	}

	if types.OffsetSize == 5 && (r.Counter("vm_puts_at_exact_32GiB_multiple") == 0 || r.Counter("nm_puts_at_exact_32GiB_multiple") == 0) {
		r.Inconclusive("no put at an exact 32 GiB multiple in the 5-byte build")
	}
	pprof.StopCPUProfile()
	if isParent {
		<-childDone
		if os.Getenv("VERIF_BIN_5B") != "" {
			if r.Counter("5bytes.build_5bytes") == 0 {
				r.Inconclusive("the child binary is not a 5BytesOffset build (or did not finish)")
			}
			if r.Counter("5bytes.vm_set") == 0 || r.Counter("5bytes.nm_put") == 0 || r.Counter("5bytes.vol_write") == 0 {
				r.Inconclusive("the 5BytesOffset child observed nothing")
			}
		}
	}
	r.Finish(100)
}
