package lib

import (
	"os"
	"strings"
	"syscall"
)

// ReexecWithResidentShadow re-executes the current process once with
// GORACE="... clear_shadow_mmap_threshold=<huge>".
//
// Why: the race runtime resets the shadow of every allocation in __tsan_malloc; for
// allocations above clear_shadow_mmap_threshold (64 KiB by default) it does that by
// re-mapping the shadow range, so every large allocation page-faults 4x its size in
// fresh shadow pages again. On this (loaded, virtualised) machine a page fault costs
// 50-300 us, which makes code that allocates MiB-sized buffers per call (e.g.
// erasure_coding.rebuildEcFiles: 14 x 1 MiB per call) take seconds per call. With the
// threshold raised tsan clears the shadow with a plain memset and the pages stay
// resident (measured: 100 x 1 MiB allocations 20 s -> 0.3 s). Detection is unchanged;
// only the way shadow memory is cleared differs.
//
// Call it first thing in main(), before lib.Start. It is a no-op when the flag is
// already present or when the binary is not a race build (GORACE is ignored then).
func ReexecWithResidentShadow() {
	const flag = "clear_shadow_mmap_threshold"
	cur := os.Getenv("GORACE")
	if strings.Contains(cur, flag) || os.Getenv("VERIF_NO_REEXEC") != "" {
		return
	}
	exe, err := os.Executable()
	if err != nil {
		return
	}
	env := make([]string, 0, len(os.Environ())+1)
	for _, e := range os.Environ() {
		if !strings.HasPrefix(e, "GORACE=") {
			env = append(env, e)
		}
	}
	env = append(env, "GORACE="+strings.TrimSpace(cur+" "+flag+"=1099511627776"))
	// Transparent huge pages are set to "always" on this machine; together with the Go scavenger
	// (madvise on parts of huge pages) that makes re-used heap memory fault in again and again.
	// PR_SET_THP_DISABLE (41) only concerns this process and survives the exec below.
	_, _, _ = syscall.RawSyscall6(syscall.SYS_PRCTL, 41, 1, 0, 0, 0, 0)
	_ = syscall.Exec(exe, os.Args, env) // only returns on failure: then just carry on
}
