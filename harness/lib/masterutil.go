package lib

// In-process master substrate (C11, C12; the idea is reusable):
//
//   * a real weed_server.MasterServer built with the public NewMasterServer,
//   * a stub raft.Server stored in the exported Topo.RaftServer,
//   * in-process heartbeat stream objects handed to the real SendHeartbeat
//     handler (the handler's reply after each heartbeat is the step barrier,
//     returning from the handler is the disconnect barrier),
//   * a model of the *registered* state (what heartbeats have told the master),
//   * a walker over the real topology tree.
//
// Nothing here decides a verdict; the oracles live in the drivers.

import (
	"context"
	"errors"
	"fmt"
	"io"
	"sort"
	"sync"
	"time"

	"github.com/chrislusf/raft"
	"github.com/gorilla/mux"
	"google.golang.org/grpc/metadata"

	"github.com/chrislusf/seaweedfs/weed/pb/master_pb"
	weed_server "github.com/chrislusf/seaweedfs/weed/server"
	"github.com/chrislusf/seaweedfs/weed/storage"
	"github.com/chrislusf/seaweedfs/weed/storage/erasure_coding"
	"github.com/chrislusf/seaweedfs/weed/storage/needle"
	"github.com/chrislusf/seaweedfs/weed/storage/super_block"
	"github.com/chrislusf/seaweedfs/weed/storage/types"
	"github.com/chrislusf/seaweedfs/weed/topology"
	"github.com/chrislusf/seaweedfs/weed/util"
)

// ---------------------------------------------------------------------------
// stub raft server

// StubRaft implements the few raft.Server methods the master uses; every other
// method would nil-dereference the embedded interface (and so be noticed).
type StubRaft struct {
	raft.Server
	mu     sync.Mutex
	name   string
	leader string
	state  string
	ctx    interface{}
	cmds   int
}

// NewStubRaft returns a raft stub named name. When isLeader is false it reports
// another server as the leader (Topology.IsLeader() is then false, which keeps the
// master's own 5-10 s refresh ticker idle; heartbeats are processed all the same).
func NewStubRaft(name string, isLeader bool, ctx interface{}) *StubRaft {
	s := &StubRaft{name: name, ctx: ctx}
	s.SetLeader(isLeader)
	return s
}

func (s *StubRaft) SetLeader(isLeader bool) {
	s.mu.Lock()
	defer s.mu.Unlock()
	if isLeader {
		s.leader, s.state = s.name, raft.Leader
	} else {
		s.leader, s.state = "127.0.0.1:1", raft.Follower
	}
}
func (s *StubRaft) Name() string { return s.name }
func (s *StubRaft) Leader() string {
	s.mu.Lock()
	defer s.mu.Unlock()
	return s.leader
}
func (s *StubRaft) State() string {
	s.mu.Lock()
	defer s.mu.Unlock()
	return s.state
}
func (s *StubRaft) Context() interface{} { return s.ctx }
func (s *StubRaft) Do(command raft.Command) (interface{}, error) {
	s.mu.Lock()
	s.cmds++
	s.mu.Unlock()
	// MaxVolumeIdCommand implements the deprecated Apply(raft.Server) interface
	if a, ok := command.(interface {
		Apply(raft.Server) (interface{}, error)
	}); ok {
		return a.Apply(s)
	}
	if a, ok := command.(raft.CommandApply); ok {
		return a.Apply(nil)
	}
	return nil, errors.New("stub raft: command cannot be applied")
}
func (s *StubRaft) AddEventListener(string, raft.EventListener) {}

// ---------------------------------------------------------------------------
// in-process master

type MasterOpts struct {
	MetaDir     string
	SizeLimitMB uint
	Leader      bool // stub raft says "I am the leader" (activates the master's own refresh ticker)
	AsMin       bool // master.replication.treat_replication_as_minimums (global viper key: one setting per process)
}

type InProcMaster struct {
	MS        *weed_server.MasterServer
	Topo      *topology.Topology
	Raft      *StubRaft
	SizeLimit uint64
	AsMin     bool
}

var masterPortSeq = 19333

// NewInProcMaster builds a real MasterServer (public constructor) and installs the stub raft.
func NewInProcMaster(o MasterOpts) *InProcMaster {
	v := util.GetViper()
	v.Set("master.replication.treat_replication_as_minimums", o.AsMin)
	masterPortSeq++
	opt := &weed_server.MasterOption{
		Host:                    "127.0.0.1",
		Port:                    masterPortSeq,
		MetaFolder:              o.MetaDir,
		VolumeSizeLimitMB:       o.SizeLimitMB,
		DefaultReplicaPlacement: "000",
		GarbageThreshold:        0.3,
	}
	ms := weed_server.NewMasterServer(mux.NewRouter(), opt, nil)
	st := NewStubRaft(fmt.Sprintf("127.0.0.1:%d", opt.Port), o.Leader, ms.Topo)
	ms.Topo.RaftServer = st
	return &InProcMaster{MS: ms, Topo: ms.Topo, Raft: st, SizeLimit: uint64(o.SizeLimitMB) * 1024 * 1024, AsMin: o.AsMin}
}

// RefreshTick does what one iteration of StartRefreshWritableVolumes does on the
// leader: CollectDeadNodeAndFullVolumes. The master's own goroutine consumes the
// unbuffered channels. The collection is run twice: the first send of the second
// pass is accepted only when the consumer has completely processed the last item
// of the first pass, and the second pass is idempotent on the writable sets
// (removeFromWritable of an absent id changes nothing), so on return every full
// volume found by the first pass has been handed over *and processed*.
func (m *InProcMaster) RefreshTick() {
	for i := 0; i < 2; i++ {
		m.Topo.CollectDeadNodeAndFullVolumes(time.Now().Unix()-15, m.SizeLimit, 0.9)
	}
}

// ---------------------------------------------------------------------------
// heartbeat stream object (implements master_pb.Seaweed_SendHeartbeatServer)

type HBSession struct {
	ctx    context.Context
	cancel context.CancelFunc
	in     chan *master_pb.Heartbeat
	out    chan *master_pb.HeartbeatResponse
	done   chan struct{}
	err    error
	beats  int
}

// Open starts the real SendHeartbeat handler on a fresh in-process stream.
func (m *InProcMaster) Open() *HBSession {
	ctx, cancel := context.WithCancel(context.Background())
	s := &HBSession{ctx: ctx, cancel: cancel,
		in:   make(chan *master_pb.Heartbeat),
		out:  make(chan *master_pb.HeartbeatResponse, 16),
		done: make(chan struct{})}
	go func() {
		s.err = m.MS.SendHeartbeat(s)
		close(s.done)
	}()
	return s
}

func (s *HBSession) Send(r *master_pb.HeartbeatResponse) error {
	select {
	case s.out <- r:
		return nil
	case <-s.ctx.Done():
		return s.ctx.Err()
	}
}
func (s *HBSession) Recv() (*master_pb.Heartbeat, error) {
	select {
	case hb, ok := <-s.in:
		if !ok {
			return nil, io.EOF
		}
		return hb, nil
	case <-s.ctx.Done():
		return nil, s.ctx.Err()
	}
}
func (s *HBSession) SetHeader(metadata.MD) error  { return nil }
func (s *HBSession) SendHeader(metadata.MD) error { return nil }
func (s *HBSession) SetTrailer(metadata.MD)       {}
func (s *HBSession) Context() context.Context     { return s.ctx }
func (s *HBSession) SendMsg(m interface{}) error  { return errors.New("SendMsg not used") }
func (s *HBSession) RecvMsg(m interface{}) error  { return errors.New("RecvMsg not used") }

// Beat hands one heartbeat to the handler and waits for its reply (the reply that
// carries the leader is sent after the whole heartbeat has been processed).
func (s *HBSession) Beat(hb *master_pb.Heartbeat) ([]*master_pb.HeartbeatResponse, error) {
	tmo := time.NewTimer(120 * time.Second) // harness-side liveness only, never a verdict
	defer tmo.Stop()
	select {
	case s.in <- hb:
	case <-s.done:
		return nil, fmt.Errorf("handler returned before the heartbeat was taken: %v", s.err)
	case <-tmo.C:
		return nil, errors.New("harness timeout: heartbeat not taken")
	}
	s.beats++
	var resps []*master_pb.HeartbeatResponse
	for {
		select {
		case r := <-s.out:
			resps = append(resps, r)
			if r.Leader != "" {
				return resps, nil
			}
		case <-s.done:
			return resps, fmt.Errorf("handler returned: %v", s.err)
		case <-tmo.C:
			return resps, errors.New("harness timeout: no reply to heartbeat")
		}
	}
}

// Close breaks the stream (Recv returns an error) and waits until the handler
// has returned, i.e. until the deferred unregistration has run.
func (s *HBSession) Close() error {
	s.cancel()
	tmo := time.NewTimer(120 * time.Second)
	defer tmo.Stop()
	select {
	case <-s.done:
		return nil
	case <-tmo.C:
		return errors.New("harness timeout: handler did not return after stream error")
	}
}

// ---------------------------------------------------------------------------
// registered-state model: what heartbeats have told the master

type RegVol struct {
	Id         uint32 `json:"id"`
	Collection string `json:"collection,omitempty"`
	RP         uint32 `json:"rp"`
	Ttl        uint32 `json:"ttl,omitempty"`
	DiskType   string `json:"disk,omitempty"` // normalised (types.ToDiskType)
	Size       uint64 `json:"size"`
	ReadOnly   bool   `json:"ro,omitempty"`
	Remote     bool   `json:"remote,omitempty"`
}

type RegEc struct {
	Id         uint32 `json:"id"`
	Collection string `json:"collection,omitempty"`
	DiskType   string `json:"disk,omitempty"`
	Bits       uint32 `json:"bits"`
}

func popcount(b uint32) (n int) {
	for ; b != 0; b &= b - 1 {
		n++
	}
	return
}

type RegServer struct {
	Idx       int
	Url       string
	Ip        string
	Port      uint32
	RawDC     string // as sent in the first heartbeat
	RawRack   string
	DC, Rack  string
	Connected bool
	Vols      map[uint32]RegVol
	Ec        map[uint32]RegEc
	Max       map[string]int64 // per normalised disk type; last non-zero value reported
}

type RegModel struct {
	mu      sync.Mutex
	Servers map[int]*RegServer
}

func NewRegModel() *RegModel { return &RegModel{Servers: make(map[int]*RegServer)} }

func (m *RegModel) server(idx int) *RegServer {
	m.mu.Lock()
	defer m.mu.Unlock()
	s := m.Servers[idx]
	if s == nil {
		s = &RegServer{Idx: idx}
		m.Servers[idx] = s
	}
	return s
}

func normDisk(s string) string { return string(types.ToDiskType(s)) }

// BeatInfo classifies one heartbeat against the registered state *before* it
// (used for coverage counters and for the input class of a violation signature).
type BeatInfo struct {
	First              bool
	Parts              []string // full, delta-new, delta-del, ec-full, ec-delta-new, ec-delta-del, max
	DeltaDelStale      int      // incremental deletions of volumes not registered on this server
	DeltaDelRemote     int      // incremental deletions of volumes registered as remote
	DeltaNewDup        int      // incremental additions of volumes already registered
	FullNew, FullGone  int
	FullRoFlips        int
	FullRemoteFlips    int
	FullSizeChanges    int
	EcExisting         int // EC volumes registered on the server before an EC full heartbeat
	EcChangedExisting  int // of those, how many change (bits added/removed or volume gone)
	EcFullNew          int
	EcDeltaDelAbsent   int // incremental EC deletions naming shards not registered
	EcDeltaNewDup      int
	MaxChangedTypes    int // disk types whose max changes (non-zero, different) in this heartbeat
	MaxZeroIgnored     int
	VolumesMentioned   []uint32
	EcVolumesMentioned []uint32
}

// ApplyBeat updates the model with one heartbeat the way the statement reads it:
// a full list replaces the server's registered volumes, incremental messages add
// and remove, a short (incremental) message carries no size/read-only/remote
// information and therefore registers size 0, writable, local.
// Processing order inside one message is the handler's: max counts, volume
// deltas (deletions, then additions), full volume list, EC deltas (additions,
// then deletions), full EC list.
func (m *RegModel) ApplyBeat(idx int, hb *master_pb.Heartbeat) BeatInfo {
	s := m.server(idx)
	var bi BeatInfo
	if !s.Connected {
		bi.First = true
		s.Connected = true
		s.Url = fmt.Sprintf("%s:%d", hb.Ip, hb.Port)
		s.Ip, s.Port, s.RawDC, s.RawRack = hb.Ip, hb.Port, hb.DataCenter, hb.Rack
		s.DC, s.Rack = hb.DataCenter, hb.Rack
		if s.DC == "" {
			s.DC = "DefaultDataCenter"
		}
		if s.Rack == "" {
			s.Rack = "DefaultRack"
		}
		s.Vols = make(map[uint32]RegVol)
		s.Ec = make(map[uint32]RegEc)
		s.Max = make(map[string]int64)
		for k, v := range hb.MaxVolumeCounts {
			s.Max[normDisk(k)] = int64(v) // the disks are created with the first heartbeat's counts (0 included)
		}
	}
	for k, v := range hb.MaxVolumeCounts {
		if v == 0 {
			if s.Max[normDisk(k)] != 0 {
				bi.MaxZeroIgnored++
			}
			continue // "the volume server may have set the max to zero": ignored by the master
		}
		if s.Max[normDisk(k)] != int64(v) {
			bi.MaxChangedTypes++
			s.Max[normDisk(k)] = int64(v)
		}
	}
	if bi.MaxChangedTypes > 0 {
		bi.Parts = append(bi.Parts, "max")
	}
	if len(hb.DeletedVolumes) > 0 {
		bi.Parts = append(bi.Parts, "delta-del")
		for _, d := range hb.DeletedVolumes {
			bi.VolumesMentioned = append(bi.VolumesMentioned, d.Id)
			if rv, ok := s.Vols[d.Id]; ok {
				if rv.Remote {
					bi.DeltaDelRemote++
				}
				delete(s.Vols, d.Id)
			} else {
				bi.DeltaDelStale++
			}
		}
	}
	if len(hb.NewVolumes) > 0 {
		bi.Parts = append(bi.Parts, "delta-new")
		for _, n := range hb.NewVolumes {
			bi.VolumesMentioned = append(bi.VolumesMentioned, n.Id)
			if _, ok := s.Vols[n.Id]; ok {
				bi.DeltaNewDup++
			}
			s.Vols[n.Id] = RegVol{Id: n.Id, Collection: n.Collection, RP: n.ReplicaPlacement, Ttl: n.Ttl, DiskType: normDisk(n.DiskType)}
		}
	}
	if len(hb.Volumes) > 0 || hb.HasNoVolumes {
		bi.Parts = append(bi.Parts, "full")
		nv := make(map[uint32]RegVol, len(hb.Volumes))
		for _, v := range hb.Volumes {
			bi.VolumesMentioned = append(bi.VolumesMentioned, v.Id)
			rv := RegVol{Id: v.Id, Collection: v.Collection, RP: v.ReplicaPlacement, Ttl: v.Ttl, DiskType: normDisk(v.DiskType),
				Size: v.Size, ReadOnly: v.ReadOnly, Remote: v.RemoteStorageName != ""}
			if old, ok := s.Vols[v.Id]; !ok {
				bi.FullNew++
			} else {
				if old.ReadOnly != rv.ReadOnly {
					bi.FullRoFlips++
				}
				if old.Remote != rv.Remote {
					bi.FullRemoteFlips++
				}
				if old.Size != rv.Size {
					bi.FullSizeChanges++
				}
			}
			nv[v.Id] = rv
		}
		for id := range s.Vols {
			if _, ok := nv[id]; !ok {
				bi.FullGone++
				bi.VolumesMentioned = append(bi.VolumesMentioned, id)
			}
		}
		s.Vols = nv
	}
	if len(hb.NewEcShards) > 0 {
		bi.Parts = append(bi.Parts, "ec-delta-new")
		for _, e := range hb.NewEcShards {
			bi.EcVolumesMentioned = append(bi.EcVolumesMentioned, e.Id)
			old, ok := s.Ec[e.Id]
			if ok && old.Bits&e.EcIndexBits != 0 {
				bi.EcDeltaNewDup++
			}
			if !ok {
				old = RegEc{Id: e.Id, Collection: e.Collection, DiskType: normDisk(e.DiskType)}
			}
			old.Bits |= e.EcIndexBits
			s.Ec[e.Id] = old
		}
	}
	if len(hb.DeletedEcShards) > 0 {
		bi.Parts = append(bi.Parts, "ec-delta-del")
		for _, e := range hb.DeletedEcShards {
			bi.EcVolumesMentioned = append(bi.EcVolumesMentioned, e.Id)
			old, ok := s.Ec[e.Id]
			if !ok || old.Bits&e.EcIndexBits != e.EcIndexBits {
				bi.EcDeltaDelAbsent++
			}
			if ok {
				old.Bits &^= e.EcIndexBits
				if old.Bits == 0 {
					delete(s.Ec, e.Id)
				} else {
					s.Ec[e.Id] = old
				}
			}
		}
	}
	if len(hb.EcShards) > 0 || hb.HasNoEcShards {
		bi.Parts = append(bi.Parts, "ec-full")
		ne := make(map[uint32]RegEc, len(hb.EcShards))
		for _, e := range hb.EcShards {
			bi.EcVolumesMentioned = append(bi.EcVolumesMentioned, e.Id)
			ne[e.Id] = RegEc{Id: e.Id, Collection: e.Collection, DiskType: normDisk(e.DiskType), Bits: e.EcIndexBits}
		}
		bi.EcExisting = len(s.Ec)
		for id, old := range s.Ec {
			if n, ok := ne[id]; !ok || n.Bits != old.Bits {
				bi.EcChangedExisting++
				bi.EcVolumesMentioned = append(bi.EcVolumesMentioned, id)
			}
		}
		for id := range ne {
			if _, ok := s.Ec[id]; !ok {
				bi.EcFullNew++
			}
		}
		s.Ec = ne
	}
	return bi
}

// Server returns the model of server idx (created on first use).
func (m *RegModel) Server(idx int) *RegServer { return m.server(idx) }

// ResyncBeats builds the full volume heartbeat and the full EC heartbeat that
// re-register exactly the server's currently registered state (used after a
// listed finding: the server's session is dropped and re-established so that the
// master's incremental counters start from zero again and nothing cascades).
func (s *RegServer) ResyncBeats() (full, ec *master_pb.Heartbeat) {
	full = &master_pb.Heartbeat{Ip: s.Ip, Port: s.Port, PublicUrl: s.Url, DataCenter: s.RawDC, Rack: s.RawRack,
		MaxVolumeCounts: map[string]uint32{}, MaxFileKey: 1}
	for k, v := range s.Max {
		full.MaxVolumeCounts[k] = uint32(v)
	}
	ids := make([]uint32, 0, len(s.Vols))
	for id := range s.Vols {
		ids = append(ids, id)
	}
	sort.Slice(ids, func(i, j int) bool { return ids[i] < ids[j] })
	for _, id := range ids {
		full.Volumes = append(full.Volumes, FullVolMsg(s.Vols[id]))
	}
	full.HasNoVolumes = len(full.Volumes) == 0
	ec = &master_pb.Heartbeat{}
	ids = ids[:0]
	for id := range s.Ec {
		ids = append(ids, id)
	}
	sort.Slice(ids, func(i, j int) bool { return ids[i] < ids[j] })
	for _, id := range ids {
		ec.EcShards = append(ec.EcShards, EcMsg(s.Ec[id]))
	}
	ec.HasNoEcShards = len(ec.EcShards) == 0
	return
}

// Disconnect forgets everything the server's session had registered.
func (m *RegModel) Disconnect(idx int) {
	s := m.server(idx)
	s.Connected = false
	s.Vols, s.Ec, s.Max = nil, nil, nil
}

// Replicas returns the connected servers on which vid is registered as a normal volume.
func (m *RegModel) Replicas(vid uint32) (out []*RegServer) {
	for _, s := range m.Servers {
		if s.Connected {
			if _, ok := s.Vols[vid]; ok {
				out = append(out, s)
			}
		}
	}
	sort.Slice(out, func(i, j int) bool { return out[i].Idx < out[j].Idx })
	return
}

// EcHolders returns the connected servers on which any shard of vid is registered.
func (m *RegModel) EcHolders(vid uint32) (out []*RegServer) {
	for _, s := range m.Servers {
		if s.Connected {
			if e, ok := s.Ec[vid]; ok && e.Bits != 0 {
				out = append(out, s)
			}
		}
	}
	sort.Slice(out, func(i, j int) bool { return out[i].Idx < out[j].Idx })
	return
}

// ---------------------------------------------------------------------------
// message builders (fields as Store.CollectHeartbeat / the delta channels set them)

func FullVolMsg(v RegVol) *master_pb.VolumeInformationMessage {
	m := &master_pb.VolumeInformationMessage{
		Id: v.Id, Size: v.Size, Collection: v.Collection, FileCount: v.Size / 100, ReadOnly: v.ReadOnly,
		ReplicaPlacement: v.RP, Version: uint32(needle.CurrentVersion), Ttl: v.Ttl, DiskType: v.DiskType,
	}
	if v.Remote {
		m.RemoteStorageName = "s3.default"
		m.RemoteStorageKey = fmt.Sprintf("vol-%d", v.Id)
	}
	return m
}

func ShortVolMsg(v RegVol) *master_pb.VolumeShortInformationMessage {
	return &master_pb.VolumeShortInformationMessage{Id: v.Id, Collection: v.Collection, ReplicaPlacement: v.RP,
		Version: uint32(needle.CurrentVersion), Ttl: v.Ttl, DiskType: v.DiskType}
}

func EcMsg(e RegEc) *master_pb.VolumeEcShardInformationMessage {
	return &master_pb.VolumeEcShardInformationMessage{Id: e.Id, Collection: e.Collection, EcIndexBits: e.Bits, DiskType: e.DiskType}
}

// RPByte converts "001" to the byte the heartbeat carries.
func RPByte(s string) uint32 {
	rp, err := super_block.NewReplicaPlacementFromString(s)
	if err != nil {
		panic(err)
	}
	return uint32(rp.Byte())
}

func RPFromByte(b uint32) *super_block.ReplicaPlacement {
	rp, err := super_block.NewReplicaPlacementFromByte(byte(b))
	if err != nil {
		panic(err)
	}
	return rp
}

// ---------------------------------------------------------------------------
// walker over the real topology tree

type TreeDisk struct {
	Node topology.Node
	Type string // normalised disk type = node id
	Vols []storage.VolumeInfo
	Ec   []*erasure_coding.EcVolumeInfo
}

type TreeServer struct {
	Node     *topology.DataNode
	Url      string
	DC, Rack string
	Disks    []TreeDisk
}

// WalkServers lists the data nodes currently linked under the topology.
func WalkServers(topo *topology.Topology) (out []TreeServer) {
	for _, dcn := range topo.Children() {
		for _, rn := range dcn.Children() {
			for _, dnn := range rn.Children() {
				dn, ok := dnn.(*topology.DataNode)
				if !ok {
					continue
				}
				ts := TreeServer{Node: dn, Url: dn.Url(), DC: string(dcn.Id()), Rack: string(rn.Id())}
				for _, dk := range dn.Children() {
					d, ok := dk.(*topology.Disk)
					if !ok {
						continue
					}
					ts.Disks = append(ts.Disks, TreeDisk{Node: d, Type: string(d.Id()), Vols: d.GetVolumes(), Ec: d.GetEcShards()})
				}
				out = append(out, ts)
			}
		}
	}
	sort.Slice(out, func(i, j int) bool { return out[i].Url < out[j].Url })
	return
}

// UrlSet turns a lookup result into a sorted, de-duplicated list of ip:port.
func UrlSet(dns []*topology.DataNode) []string {
	seen := map[string]bool{}
	var out []string
	for _, dn := range dns {
		u := dn.Url()
		if !seen[u] {
			seen[u] = true
			out = append(out, u)
		}
	}
	sort.Strings(out)
	return out
}
