package lib

// BlobServer is a harness-side HTTP server on loopback that serves chunk bytes by
// file id, the way a volume server answers the read paths of weed/filer
// (fetchChunk / retriedFetchChunkData / util.ReadUrlAsStream): whole blob with
// optional "Content-Encoding: gzip" when the client accepts it, or a byte range
// (206) of the uncompressed content. It is an observer at a real network
// boundary: the code under test performs real HTTP requests against it.
//
// It is used as the target of a LookupFileIdFunctionType (Lookup) and also
// implements wdclient.HasLookupFileIdFunction (what filer.StreamContent takes).

import (
	"bytes"
	"compress/gzip"
	"fmt"
	"io/ioutil"
	"net"
	"net/http"
	"strconv"
	"strings"
	"sync"
	"sync/atomic"

	"github.com/chrislusf/seaweedfs/weed/wdclient"
)

type blobEntry struct {
	plain []byte // what a range request is cut from (for encrypted blobs: the ciphertext)
	gz    []byte // non-nil: stored compressed; served as-is to clients that accept gzip
}

type BlobServer struct {
	mu    sync.RWMutex
	blobs map[string]*blobEntry
	ln    net.Listener
	srv   *http.Server
	addr  string

	Requests      int64 // all GETs answered
	RangeRequests int64 // GETs with a Range header
	GzipResponses int64 // answered with Content-Encoding: gzip
	NotFound      int64 // GETs for unknown file ids
	Lookups       int64 // calls of the lookup function
}

// NewBlobServer starts the server on a free loopback port.
func NewBlobServer() (*BlobServer, error) {
	ln, err := net.Listen("tcp", "127.0.0.1:0")
	if err != nil {
		return nil, err
	}
	b := &BlobServer{blobs: make(map[string]*blobEntry), ln: ln, addr: ln.Addr().String()}
	b.srv = &http.Server{Handler: http.HandlerFunc(b.serve)}
	go b.srv.Serve(ln)
	return b, nil
}

func (b *BlobServer) Addr() string { return b.addr }

// Put stores data under fid, served uncompressed.
func (b *BlobServer) Put(fid string, data []byte) {
	b.mu.Lock()
	b.blobs[fid] = &blobEntry{plain: append([]byte{}, data...)}
	b.mu.Unlock()
}

// PutGzipped stores data under fid as a compressed blob: a whole-blob request that
// accepts gzip gets the compressed bytes with Content-Encoding: gzip, every other
// request is answered from the uncompressed content (as the volume server does).
func (b *BlobServer) PutGzipped(fid string, data []byte) {
	var buf bytes.Buffer
	zw := gzip.NewWriter(&buf)
	_, _ = zw.Write(data)
	_ = zw.Close()
	b.mu.Lock()
	b.blobs[fid] = &blobEntry{plain: append([]byte{}, data...), gz: buf.Bytes()}
	b.mu.Unlock()
}

// Forget removes blobs.
func (b *BlobServer) Forget(fids ...string) {
	b.mu.Lock()
	for _, f := range fids {
		delete(b.blobs, f)
	}
	b.mu.Unlock()
}

// Len returns the number of blobs held.
func (b *BlobServer) Len() int {
	b.mu.RLock()
	defer b.mu.RUnlock()
	return len(b.blobs)
}

// Lookup has the type wdclient.LookupFileIdFunctionType.
func (b *BlobServer) Lookup(fileId string) ([]string, error) {
	atomic.AddInt64(&b.Lookups, 1)
	return []string{"http://" + b.addr + "/" + fileId}, nil
}

// GetLookupFileIdFunction makes the server a wdclient.HasLookupFileIdFunction.
func (b *BlobServer) GetLookupFileIdFunction() wdclient.LookupFileIdFunctionType {
	return b.Lookup
}

var _ wdclient.HasLookupFileIdFunction = (*BlobServer)(nil)

func (b *BlobServer) Close() {
	_ = b.srv.Close()
}

func (b *BlobServer) serve(w http.ResponseWriter, req *http.Request) {
	atomic.AddInt64(&b.Requests, 1)
	_, _ = ioutil.ReadAll(req.Body)
	fid := strings.TrimPrefix(req.URL.Path, "/")
	b.mu.RLock()
	e := b.blobs[fid]
	b.mu.RUnlock()
	if e == nil {
		atomic.AddInt64(&b.NotFound, 1)
		http.Error(w, "no such blob "+fid, http.StatusNotFound)
		return
	}
	if rng := req.Header.Get("Range"); rng != "" {
		atomic.AddInt64(&b.RangeRequests, 1)
		start, stop, ok := parseRange(rng, int64(len(e.plain)))
		if !ok {
			w.Header().Set("Content-Range", fmt.Sprintf("bytes */%d", len(e.plain)))
			http.Error(w, "bad range", http.StatusRequestedRangeNotSatisfiable)
			return
		}
		w.Header().Set("Content-Range", fmt.Sprintf("bytes %d-%d/%d", start, stop-1, len(e.plain)))
		w.Header().Set("Content-Length", strconv.FormatInt(stop-start, 10))
		w.WriteHeader(http.StatusPartialContent)
		_, _ = w.Write(e.plain[start:stop])
		return
	}
	if e.gz != nil && strings.Contains(req.Header.Get("Accept-Encoding"), "gzip") {
		atomic.AddInt64(&b.GzipResponses, 1)
		w.Header().Set("Content-Encoding", "gzip")
		w.Header().Set("Content-Length", strconv.Itoa(len(e.gz)))
		_, _ = w.Write(e.gz)
		return
	}
	w.Header().Set("Content-Length", strconv.Itoa(len(e.plain)))
	_, _ = w.Write(e.plain)
}

// parseRange understands the single-range forms "bytes=a-b", "bytes=a-" and "bytes=-n".
func parseRange(h string, size int64) (start, stop int64, ok bool) {
	if !strings.HasPrefix(h, "bytes=") {
		return 0, 0, false
	}
	spec := strings.TrimPrefix(h, "bytes=")
	if strings.Contains(spec, ",") {
		return 0, 0, false
	}
	i := strings.Index(spec, "-")
	if i < 0 {
		return 0, 0, false
	}
	a, z := spec[:i], spec[i+1:]
	if a == "" {
		n, err := strconv.ParseInt(z, 10, 64)
		if err != nil || n <= 0 {
			return 0, 0, false
		}
		if n > size {
			n = size
		}
		return size - n, size, true
	}
	s, err := strconv.ParseInt(a, 10, 64)
	if err != nil || s < 0 || s >= size {
		return 0, 0, false
	}
	e := size - 1
	if z != "" {
		v, err := strconv.ParseInt(z, 10, 64)
		if err != nil || v < s {
			return 0, 0, false
		}
		if v < e {
			e = v
		}
	}
	return s, e + 1, true
}
