package lib

import (
	"fmt"
	"io/ioutil"
	"math/rand"
	"net"
	"net/http"
	"os"
	"os/exec"
	"path/filepath"
	"strings"
	"syscall"
	"time"
)

// Proc is one weed subprocess of a cluster.
type Proc struct {
	Name string
	Cmd  *exec.Cmd
	Port int
	Dir  string // working/data dir
	Args []string
	Log  string
}

// Cluster is a real weed cluster on loopback (substrate S2).
type Cluster struct {
	R       *Run
	Weed    string
	Root    string
	Master  *Proc
	Volumes []*Proc
	Filer   *Proc
	S3      *Proc
	procs   []*Proc
	raceDir string
}

var portRng = rand.New(rand.NewSource(time.Now().UnixNano() ^ int64(os.Getpid())<<20))

// FreePort returns a port p such that p and p+10000 (the gRPC twin) are both free.
func FreePort() int {
	for i := 0; i < 2000; i++ {
		p := 20000 + portRng.Intn(25000)
		ok := true
		for _, q := range []int{p, p + 10000} {
			l, err := net.Listen("tcp", fmt.Sprintf("127.0.0.1:%d", q))
			if err != nil {
				ok = false
				break
			}
			l.Close()
		}
		if ok {
			return p
		}
	}
	panic("no free port")
}

// NewCluster prepares a cluster rooted in a fresh scratch directory. The weed binary
// is the race-built one named by VERIF_WEED (built by ./check from /repo).
func NewCluster(r *Run) *Cluster {
	w := os.Getenv("VERIF_WEED")
	if w == "" {
		w = filepath.Join(VerifRoot, ".bin", "weed")
	}
	if _, err := os.Stat(w); err != nil {
		r.Must(err, "weed binary (VERIF_WEED)")
	}
	c := &Cluster{R: r, Weed: w, Root: r.SubDir("cluster")}
	c.raceDir = filepath.Join(c.Root, "race")
	_ = os.MkdirAll(c.raceDir, 0755)
	return c
}

// Start launches `weed <args>` in its own process group with cwd dir.
func (c *Cluster) Start(name string, dir string, port int, args ...string) *Proc {
	_ = os.MkdirAll(dir, 0755)
	p := &Proc{Name: name, Port: port, Dir: dir, Args: args, Log: filepath.Join(c.Root, name+".log")}
	c.launch(p)
	c.procs = append(c.procs, p)
	return p
}

func (c *Cluster) launch(p *Proc) {
	logDir := filepath.Join(c.Root, "glog-"+p.Name)
	_ = os.MkdirAll(logDir, 0755)
	full := append([]string{"-logdir=" + logDir, "-logtostderr=true"}, p.Args...)
	cmd := exec.Command(c.Weed, full...)
	cmd.Dir = p.Dir
	lf, _ := os.OpenFile(p.Log, os.O_CREATE|os.O_APPEND|os.O_WRONLY, 0644)
	cmd.Stdout = lf
	cmd.Stderr = lf
	cmd.SysProcAttr = &syscall.SysProcAttr{Setpgid: true}
	cmd.Env = append(os.Environ(), "GORACE=halt_on_error=0 exitcode=0 clear_shadow_mmap_threshold=1099511627776 log_path="+filepath.Join(c.raceDir, p.Name))
	if err := cmd.Start(); err != nil {
		c.R.Must(err, "start weed "+p.Name)
	}
	p.Cmd = cmd
	go func() { _ = cmd.Wait(); lf.Close() }()
}

// Kill stops a process (whole group) with the given signal and waits briefly.
func (c *Cluster) Kill(p *Proc, sig syscall.Signal) {
	if p == nil || p.Cmd == nil || p.Cmd.Process == nil {
		return
	}
	_ = syscall.Kill(-p.Cmd.Process.Pid, sig)
	if sig == syscall.SIGSTOP || sig == syscall.SIGCONT {
		return
	}
	for i := 0; i < 100; i++ {
		if err := syscall.Kill(p.Cmd.Process.Pid, 0); err != nil {
			break
		}
		time.Sleep(50 * time.Millisecond)
	}
	_ = syscall.Kill(-p.Cmd.Process.Pid, syscall.SIGKILL)
}

// Restart launches the same command line again.
func (c *Cluster) Restart(p *Proc) { c.launch(p) }

// Alive reports whether the process still exists.
func (p *Proc) Alive() bool {
	return p != nil && p.Cmd != nil && p.Cmd.Process != nil && syscall.Kill(p.Cmd.Process.Pid, 0) == nil
}

func (p *Proc) Addr() string { return fmt.Sprintf("127.0.0.1:%d", p.Port) }
func (p *Proc) Url() string  { return "http://" + p.Addr() }

// StartMaster starts one master; extra are additional flags.
func (c *Cluster) StartMaster(extra ...string) *Proc {
	port := FreePort()
	dir := filepath.Join(c.Root, "master")
	args := append([]string{"master", "-ip=127.0.0.1", fmt.Sprintf("-port=%d", port), "-mdir=" + dir, "-volumeSizeLimitMB=64"}, extra...)
	c.Master = c.Start("master", dir, port, args...)
	return c.Master
}

// StartVolume starts a volume server registered with the master.
func (c *Cluster) StartVolume(extra ...string) *Proc {
	port := FreePort()
	i := len(c.Volumes)
	dir := filepath.Join(c.Root, fmt.Sprintf("volume%d", i))
	_ = os.MkdirAll(filepath.Join(dir, "data"), 0755)
	args := append([]string{"volume", "-ip=127.0.0.1", fmt.Sprintf("-port=%d", port), "-dir=" + filepath.Join(dir, "data"), "-max=40",
		"-mserver=" + c.Master.Addr(), "-minFreeSpacePercent=0", "-preStopSeconds=0"}, extra...)
	p := c.Start(fmt.Sprintf("volume%d", i), dir, port, args...)
	c.Volumes = append(c.Volumes, p)
	return p
}

// StartFiler starts a filer with an embedded leveldb2 store in its own directory.
func (c *Cluster) StartFiler(extra ...string) *Proc {
	port := FreePort()
	dir := filepath.Join(c.Root, "filer")
	args := append([]string{"filer", "-ip=127.0.0.1", fmt.Sprintf("-port=%d", port), "-master=" + c.Master.Addr(), "-defaultStoreDir=" + filepath.Join(dir, "store")}, extra...)
	_ = os.MkdirAll(filepath.Join(dir, "store"), 0755)
	c.Filer = c.Start("filer", dir, port, args...)
	return c.Filer
}

// StartS3 starts an S3 gateway in front of the filer. config is the path of an
// identities file ("" = no authentication).
func (c *Cluster) StartS3(config string, extra ...string) *Proc {
	port := FreePort()
	dir := filepath.Join(c.Root, "s3")
	args := []string{"s3", fmt.Sprintf("-port=%d", port), "-filer=" + c.Filer.Addr()}
	if config != "" {
		args = append(args, "-config="+config)
	}
	args = append(args, extra...)
	c.S3 = c.Start("s3", dir, port, args...)
	return c.S3
}

// WaitHTTP polls url until it answers with a status below 500 (bounded; inconclusive otherwise).
func (c *Cluster) WaitHTTP(url string, what string, seconds int) bool {
	if seconds < 240 {
		seconds = 240 // generous on purpose: expiry is inconclusive, and the loop ends as soon as the server answers
	}
	deadline := time.Now().Add(time.Duration(seconds) * time.Second)
	for time.Now().Before(deadline) {
		resp, err := http.Get(url)
		if err == nil {
			_, _ = ioutil.ReadAll(resp.Body)
			resp.Body.Close()
			if resp.StatusCode < 500 {
				return true
			}
		}
		time.Sleep(300 * time.Millisecond)
	}
	c.R.Inconclusive("cluster start-up: " + what + " did not answer within " + fmt.Sprint(seconds) + "s")
	return false
}

// WaitAssign waits until the master hands out a file id (raft leader elected and
// a volume server with free slots registered).
func (c *Cluster) WaitAssign(query string, seconds int) bool {
	if seconds < 360 {
		seconds = 360 // raft election takes 3-25 s on an idle box, minutes on an overloaded one
	}
	deadline := time.Now().Add(time.Duration(seconds) * time.Second)
	url := c.Master.Url() + "/dir/assign"
	if query != "" {
		url += "?" + query
	}
	for time.Now().Before(deadline) {
		resp, err := http.Get(url)
		if err == nil {
			b, _ := ioutil.ReadAll(resp.Body)
			resp.Body.Close()
			if resp.StatusCode == 200 && strings.Contains(string(b), `"fid"`) && !strings.Contains(string(b), `"error"`) {
				return true
			}
		}
		time.Sleep(500 * time.Millisecond)
	}
	c.R.Inconclusive("cluster start-up: master did not assign within " + fmt.Sprint(seconds) + "s")
	return false
}

// Stop terminates every process and collects the race reports of the weed
// processes into the run's notes (recorded, decisive only where a driver says so).
func (c *Cluster) Stop() []RaceReport {
	for i := len(c.procs) - 1; i >= 0; i-- {
		p := c.procs[i]
		if p.Alive() {
			_ = syscall.Kill(-p.Cmd.Process.Pid, syscall.SIGCONT)
			_ = syscall.Kill(-p.Cmd.Process.Pid, syscall.SIGTERM)
		}
	}
	time.Sleep(500 * time.Millisecond)
	for _, p := range c.procs {
		if p.Cmd != nil && p.Cmd.Process != nil {
			_ = syscall.Kill(-p.Cmd.Process.Pid, syscall.SIGKILL)
		}
	}
	reps := ParseRaceLogs(c.raceDir + "/")
	d := DedupRaces(reps)
	var sigs []string
	for s, l := range d {
		sigs = append(sigs, fmt.Sprintf("%dx %s", len(l), s))
	}
	if len(sigs) > 0 {
		c.R.Note("weed_race_reports_recorded_not_decisive", sigs)
	}
	return reps
}

// ProcLogTail returns the last n bytes of a process log (for replay detail).
func (c *Cluster) ProcLogTail(p *Proc, n int) string {
	b, err := ioutil.ReadFile(p.Log)
	if err != nil {
		return ""
	}
	if len(b) > n {
		b = b[len(b)-n:]
	}
	return string(b)
}
