package lib

// Construction of filer metadata stores for the in-process drivers (C19, C24):
// the three embedded leveldb stores initialised from a fresh viper exactly as
// `weed filer` does from filer.toml, a harness in-memory FilerStore that has no
// native prefix listing (it answers ErrUnsupportedListDirectoryPrefixed, which
// forces FilerStoreWrapper.prefixFilterEntries), a counting decorator that gives
// every listing a logical step budget, and a bare Filer around a store.

import (
	"context"
	"errors"
	"fmt"
	"sort"
	"strings"
	"sync"

	"github.com/spf13/viper"

	"github.com/chrislusf/seaweedfs/weed/filer"
	"github.com/chrislusf/seaweedfs/weed/filer/leveldb"
	leveldb2 "github.com/chrislusf/seaweedfs/weed/filer/leveldb2"
	leveldb3 "github.com/chrislusf/seaweedfs/weed/filer/leveldb3"
	"github.com/chrislusf/seaweedfs/weed/pb/filer_pb"
	"github.com/chrislusf/seaweedfs/weed/util"
)

// EmbeddedFilerStoreKinds are the embedded (no external service) stores of the pinned tree.
var EmbeddedFilerStoreKinds = []string{"leveldb", "leveldb2", "leveldb3"}

// MemNoPrefixKind names the harness in-memory store without native prefix listing.
const MemNoPrefixKind = "mem-noprefix"

// OpenFilerStore creates and initialises one filer store of the given kind over dir
// (dir is ignored by the in-memory store). The leveldb stores are initialised through
// their public Initialize(configuration, prefix) from a fresh viper, as the filer does.
func OpenFilerStore(kind, dir string) (filer.FilerStore, error) {
	var s filer.FilerStore
	switch kind {
	case "leveldb":
		s = &leveldb.LevelDBStore{}
	case "leveldb2":
		s = &leveldb2.LevelDB2Store{}
	case "leveldb3":
		s = &leveldb3.LevelDB3Store{}
	case MemNoPrefixKind:
		return NewMemFilerStore(true), nil
	default:
		return nil, fmt.Errorf("unknown filer store kind %q", kind)
	}
	v := viper.New()
	v.Set(kind+".enabled", true)
	v.Set(kind+".dir", dir)
	if err := s.Initialize(v, kind+"."); err != nil {
		return nil, err
	}
	return s, nil
}

// NewBareFiler returns a real filer.Filer (no masters, no peers, no notification
// queue) whose Store is the real FilerStoreWrapper around store.
func NewBareFiler(store filer.FilerStore) *filer.Filer {
	f := filer.NewFiler(nil, nil, "verif", 0, "", "", "", nil)
	f.SetStore(store)
	return f
}

// ErrListStepBudget is returned by CountingFilerStore once a request has used up its
// budget of store listing calls: an endless re-listing loop in the code under test
// then ends with this error and is judged by the step count, not by a timeout.
var ErrListStepBudget = errors.New("verif: store listing step budget exceeded")

// CountingFilerStore passes everything through to the inner store and counts listing
// calls. It changes no result unless the budget is exceeded.
type CountingFilerStore struct {
	filer.FilerStore
	mu               sync.Mutex
	budget           int64 // 0 = unlimited
	listCalls        int64
	prefixedNonEmpty int64
	restarts         int64 // calls after the first of a request that start again from the empty name
	exceeded         bool
	deletes          int64
	TotalListCalls   int64
}

// DeleteEntry passes through and counts (TakeDeletes tells a driver whether a listing
// removed expired entries that it has to put back before the next request).
func (c *CountingFilerStore) DeleteEntry(ctx context.Context, fp util.FullPath) error {
	c.mu.Lock()
	c.deletes++
	c.mu.Unlock()
	return c.FilerStore.DeleteEntry(ctx, fp)
}

// TakeDeletes returns the number of DeleteEntry calls since the last TakeDeletes.
func (c *CountingFilerStore) TakeDeletes() int64 {
	c.mu.Lock()
	defer c.mu.Unlock()
	n := c.deletes
	c.deletes = 0
	return n
}

func NewCountingFilerStore(inner filer.FilerStore) *CountingFilerStore {
	return &CountingFilerStore{FilerStore: inner}
}

// Begin starts a new request with the given budget of listing calls.
func (c *CountingFilerStore) Begin(budget int64) {
	c.mu.Lock()
	c.budget, c.listCalls, c.prefixedNonEmpty, c.restarts, c.exceeded = budget, 0, 0, 0, false
	c.mu.Unlock()
}

// Restarts returns how many listing calls since Begin, other than the first one, started
// from the empty name again (a continuation never needs that: it starts after a name).
func (c *CountingFilerStore) Restarts() int64 {
	c.mu.Lock()
	defer c.mu.Unlock()
	return c.restarts
}

// Calls returns (listing calls, prefixed calls with a non-empty prefix, budget exceeded) since Begin.
func (c *CountingFilerStore) Calls() (int64, int64, bool) {
	c.mu.Lock()
	defer c.mu.Unlock()
	return c.listCalls, c.prefixedNonEmpty, c.exceeded
}

func (c *CountingFilerStore) step(prefix, start string) error {
	c.mu.Lock()
	defer c.mu.Unlock()
	c.listCalls++
	if c.listCalls > 1 && start == "" {
		c.restarts++
	}
	c.TotalListCalls++
	if prefix != "" {
		c.prefixedNonEmpty++
	}
	if c.budget > 0 && c.listCalls > c.budget {
		c.exceeded = true
		return ErrListStepBudget
	}
	return nil
}

func (c *CountingFilerStore) ListDirectoryEntries(ctx context.Context, dirPath util.FullPath, startFileName string, includeStartFile bool, limit int64, eachEntryFunc filer.ListEachEntryFunc) (string, error) {
	if err := c.step("", startFileName); err != nil {
		return "", err
	}
	return c.FilerStore.ListDirectoryEntries(ctx, dirPath, startFileName, includeStartFile, limit, eachEntryFunc)
}

func (c *CountingFilerStore) ListDirectoryPrefixedEntries(ctx context.Context, dirPath util.FullPath, startFileName string, includeStartFile bool, limit int64, prefix string, eachEntryFunc filer.ListEachEntryFunc) (string, error) {
	if err := c.step(prefix, startFileName); err != nil {
		return "", err
	}
	return c.FilerStore.ListDirectoryPrefixedEntries(ctx, dirPath, startFileName, includeStartFile, limit, prefix, eachEntryFunc)
}

// MemFilerStore is a small, obviously-correct in-memory FilerStore. Entries are kept
// in their encoded form (so every read hands out a fresh object, as real stores do).
// With noPrefix it has no native prefix listing, like the redis/cassandra/hbase/etcd stores.
type MemFilerStore struct {
	mu       sync.Mutex
	noPrefix bool
	dirs     map[string]map[string][]byte // dir -> name -> encoded entry
	kv       map[string][]byte
}

func NewMemFilerStore(noPrefix bool) *MemFilerStore {
	return &MemFilerStore{noPrefix: noPrefix, dirs: make(map[string]map[string][]byte), kv: make(map[string][]byte)}
}

func (m *MemFilerStore) GetName() string { return "verifmem" }
func (m *MemFilerStore) Initialize(configuration util.Configuration, prefix string) error {
	return nil
}

func (m *MemFilerStore) InsertEntry(ctx context.Context, entry *filer.Entry) error {
	value, err := entry.EncodeAttributesAndChunks()
	if err != nil {
		return err
	}
	dir, name := entry.FullPath.DirAndName()
	m.mu.Lock()
	defer m.mu.Unlock()
	d := m.dirs[dir]
	if d == nil {
		d = make(map[string][]byte)
		m.dirs[dir] = d
	}
	d[name] = value
	return nil
}

func (m *MemFilerStore) UpdateEntry(ctx context.Context, entry *filer.Entry) error {
	return m.InsertEntry(ctx, entry)
}

func (m *MemFilerStore) FindEntry(ctx context.Context, fp util.FullPath) (*filer.Entry, error) {
	dir, name := fp.DirAndName()
	m.mu.Lock()
	value, ok := m.dirs[dir][name]
	m.mu.Unlock()
	if !ok {
		return nil, filer_pb.ErrNotFound
	}
	e := &filer.Entry{FullPath: fp}
	if err := e.DecodeAttributesAndChunks(value); err != nil {
		return e, err
	}
	return e, nil
}

func (m *MemFilerStore) DeleteEntry(ctx context.Context, fp util.FullPath) error {
	dir, name := fp.DirAndName()
	m.mu.Lock()
	delete(m.dirs[dir], name)
	m.mu.Unlock()
	return nil
}

func (m *MemFilerStore) DeleteFolderChildren(ctx context.Context, fp util.FullPath) error {
	m.mu.Lock()
	delete(m.dirs, string(fp))
	m.mu.Unlock()
	return nil
}

func (m *MemFilerStore) list(dirPath util.FullPath, start string, inclusive bool, limit int64, prefix string, fn filer.ListEachEntryFunc) (string, error) {
	m.mu.Lock()
	d := m.dirs[string(dirPath)]
	names := make([]string, 0, len(d))
	for n := range d {
		if (n > start || (n == start && inclusive)) && strings.HasPrefix(n, prefix) {
			names = append(names, n)
		}
	}
	sort.Strings(names)
	if int64(len(names)) > limit {
		if limit < 0 {
			limit = 0
		}
		names = names[:limit]
	}
	values := make([][]byte, len(names))
	for i, n := range names {
		values[i] = d[n]
	}
	m.mu.Unlock()
	last := ""
	for i, n := range names {
		e := &filer.Entry{FullPath: util.NewFullPath(string(dirPath), n)}
		if err := e.DecodeAttributesAndChunks(values[i]); err != nil {
			return last, err
		}
		last = n
		if !fn(e) {
			break
		}
	}
	return last, nil
}

func (m *MemFilerStore) ListDirectoryEntries(ctx context.Context, dirPath util.FullPath, startFileName string, includeStartFile bool, limit int64, eachEntryFunc filer.ListEachEntryFunc) (string, error) {
	return m.list(dirPath, startFileName, includeStartFile, limit, "", eachEntryFunc)
}

func (m *MemFilerStore) ListDirectoryPrefixedEntries(ctx context.Context, dirPath util.FullPath, startFileName string, includeStartFile bool, limit int64, prefix string, eachEntryFunc filer.ListEachEntryFunc) (string, error) {
	if m.noPrefix {
		return "", filer.ErrUnsupportedListDirectoryPrefixed
	}
	return m.list(dirPath, startFileName, includeStartFile, limit, prefix, eachEntryFunc)
}

func (m *MemFilerStore) BeginTransaction(ctx context.Context) (context.Context, error) {
	return ctx, nil
}
func (m *MemFilerStore) CommitTransaction(ctx context.Context) error   { return nil }
func (m *MemFilerStore) RollbackTransaction(ctx context.Context) error { return nil }

func (m *MemFilerStore) KvPut(ctx context.Context, key []byte, value []byte) error {
	m.mu.Lock()
	m.kv[string(key)] = append([]byte{}, value...)
	m.mu.Unlock()
	return nil
}

func (m *MemFilerStore) KvGet(ctx context.Context, key []byte) ([]byte, error) {
	m.mu.Lock()
	v, ok := m.kv[string(key)]
	m.mu.Unlock()
	if !ok {
		return nil, filer.ErrKvNotFound
	}
	return append([]byte{}, v...), nil
}

func (m *MemFilerStore) KvDelete(ctx context.Context, key []byte) error {
	m.mu.Lock()
	delete(m.kv, string(key))
	m.mu.Unlock()
	return nil
}

func (m *MemFilerStore) Shutdown() {}
