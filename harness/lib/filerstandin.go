package lib

// FilerStandIn is a harness-side recording stand-in for a filer, put behind code
// that talks to a filer over HTTP and gRPC (the S3 gateway: option.Filer /
// option.FilerGrpcAddress). It is an observer at a real network boundary: the code
// under test performs real HTTP requests and real gRPC calls against it; every call
// is logged (method + path / directory + name) and answered with a plausible result
// so that handlers proceed as far as they would against a real filer.
//
//   - HTTP: GET/HEAD answer a small object, PUT/POST a FilerPostResult JSON, DELETE 204.
//     A request header X-Verif-Req (copied through by the S3 gateway's proxy code) is
//     kept as the call's Tag so that a late-arriving call can be attributed.
//   - gRPC: the SeaweedFiler service is registered with unary/stream interceptors that
//     log every call; calls to any other service are logged by an unknown-service
//     handler and refused. SubscribeMetadata/KeepConnected streams are background
//     calls of the gateway itself: they are logged with Background=true and are not
//     returned by Drain. SubscribeMetadata streams stay open; PushEntry sends an event
//     to every open subscription (used to reload the gateway's identities).
//
// What the SeaweedFiler methods answer is decided by LookupFn/ListFn (replaceable);
// the defaults are S3-shaped: buckets are directories below BucketsPath, everything
// under "<bucket>/.uploads" exists as an upload directory with two parts, every other
// name exists as a small file carrying one tag.

import (
	"context"
	"encoding/json"
	"fmt"
	"io"
	"io/ioutil"
	"net"
	"net/http"
	"path"
	"strings"
	"sync"
	"sync/atomic"
	"time"

	"github.com/chrislusf/seaweedfs/weed/pb"
	"github.com/chrislusf/seaweedfs/weed/pb/filer_pb"
	"google.golang.org/grpc"
	"google.golang.org/grpc/codes"
	"google.golang.org/grpc/status"
)

// StandInTagHeader is the request header whose value is recorded as BackendCall.Tag.
const StandInTagHeader = "X-Verif-Req"

// BackendCall is one call received by the stand-in.
type BackendCall struct {
	Seq        int64  `json:"seq"`
	Proto      string `json:"proto"`  // "http" | "grpc"
	Method     string `json:"method"` // HTTP verb, or gRPC full method (/filer_pb.SeaweedFiler/CreateEntry)
	Target     string `json:"target"` // HTTP: path?query; gRPC: directory + "/" + name (or the collection)
	Dir        string `json:"dir,omitempty"`
	Name       string `json:"name,omitempty"`
	Tag        string `json:"tag,omitempty"`
	Write      bool   `json:"write"` // changes filer state (HTTP PUT/POST/DELETE, Create/Update/Delete...)
	BodyLen    int64  `json:"body_len,omitempty"`
	Background bool   `json:"background,omitempty"`
	Unknown    bool   `json:"unknown,omitempty"` // gRPC method outside the registered service
}

// Short returns method and target on one line.
func (c BackendCall) Short() string {
	m := c.Method
	if i := strings.LastIndex(m, "/"); i >= 0 && c.Proto == "grpc" {
		m = m[i+1:]
	}
	return c.Proto + ":" + m + " " + c.Target
}

type FilerStandIn struct {
	BucketsPath string
	// LookupFn answers LookupDirectoryEntry (nil = not found). ListFn answers ListEntries.
	LookupFn func(dir, name string) *filer_pb.Entry
	ListFn   func(dir string) []*filer_pb.Entry

	mu           sync.Mutex
	calls        []BackendCall
	seq          int64
	active       int32
	total        int64
	background   int64
	buckets      []string
	bucketsExist bool
	subs         map[int]chan *filer_pb.SubscribeMetadataResponse
	subSeq       int

	httpLn  net.Listener
	httpSrv *http.Server
	grpcLn  net.Listener
	grpcSrv *grpc.Server
	stop    chan struct{}
}

// StartFilerStandIn starts the HTTP and the gRPC endpoint on free loopback ports.
func StartFilerStandIn(bucketsPath string, buckets []string) (*FilerStandIn, error) {
	f := &FilerStandIn{BucketsPath: bucketsPath, buckets: append([]string{}, buckets...), bucketsExist: true,
		subs: make(map[int]chan *filer_pb.SubscribeMetadataResponse), stop: make(chan struct{})}
	f.LookupFn = f.defaultLookup
	f.ListFn = f.defaultList
	var err error
	if f.httpLn, err = net.Listen("tcp", "127.0.0.1:0"); err != nil {
		return nil, err
	}
	if f.grpcLn, err = net.Listen("tcp", "127.0.0.1:0"); err != nil {
		f.httpLn.Close()
		return nil, err
	}
	f.httpSrv = &http.Server{Handler: http.HandlerFunc(f.serveHTTP)}
	go f.httpSrv.Serve(f.httpLn)
	// same constructor (keepalive enforcement, message sizes) as the real filer's gRPC server
	f.grpcSrv = pb.NewGrpcServer(
		grpc.UnaryInterceptor(f.unaryInterceptor),
		grpc.StreamInterceptor(f.streamInterceptor),
		grpc.UnknownServiceHandler(f.unknownService),
	)
	filer_pb.RegisterSeaweedFilerServer(f.grpcSrv, &standInFiler{f: f})
	go f.grpcSrv.Serve(f.grpcLn)
	return f, nil
}

func (f *FilerStandIn) HTTPAddr() string { return f.httpLn.Addr().String() }
func (f *FilerStandIn) GrpcAddr() string { return f.grpcLn.Addr().String() }

func (f *FilerStandIn) Stop() {
	close(f.stop)
	f.httpSrv.Close()
	f.grpcSrv.Stop()
}

// SetBucketsExist decides whether a lookup of "<BucketsPath>/<bucket>" finds the bucket
// (false lets PutBucket get as far as creating it).
func (f *FilerStandIn) SetBucketsExist(b bool) {
	f.mu.Lock()
	f.bucketsExist = b
	f.mu.Unlock()
}

// Total returns the number of foreground calls and of background calls seen so far.
func (f *FilerStandIn) Total() (foreground, background int64) {
	return atomic.LoadInt64(&f.total), atomic.LoadInt64(&f.background)
}

// Subscribers returns the number of open SubscribeMetadata streams.
func (f *FilerStandIn) Subscribers() int {
	f.mu.Lock()
	defer f.mu.Unlock()
	return len(f.subs)
}

// PushEntry sends a metadata event "entry created/updated in dir" to every open subscription.
func (f *FilerStandIn) PushEntry(dir string, entry *filer_pb.Entry) int {
	ev := &filer_pb.SubscribeMetadataResponse{Directory: dir, TsNs: time.Now().UnixNano(),
		EventNotification: &filer_pb.EventNotification{NewEntry: entry, NewParentPath: dir}}
	f.mu.Lock()
	defer f.mu.Unlock()
	n := 0
	for _, ch := range f.subs {
		select {
		case ch <- ev:
			n++
		default:
		}
	}
	return n
}

func (f *FilerStandIn) record(c BackendCall) {
	f.mu.Lock()
	f.seq++
	c.Seq = f.seq
	if c.Background {
		atomic.AddInt64(&f.background, 1)
	} else {
		atomic.AddInt64(&f.total, 1)
		f.calls = append(f.calls, c)
	}
	f.mu.Unlock()
}

// Drain waits until no foreground call is being served and returns (and forgets) the
// foreground calls logged since the previous Drain. quiet reports whether the
// stand-in became idle within the bound.
func (f *FilerStandIn) Drain() (calls []BackendCall, quiet bool) {
	quiet = true
	deadline := time.Now().Add(10 * time.Second)
	for atomic.LoadInt32(&f.active) != 0 {
		if time.Now().After(deadline) {
			quiet = false
			break
		}
		time.Sleep(50 * time.Microsecond)
	}
	f.mu.Lock()
	calls = f.calls
	f.calls = nil
	f.mu.Unlock()
	return
}

// ---------------------------------------------------------------- HTTP side

func (f *FilerStandIn) serveHTTP(w http.ResponseWriter, r *http.Request) {
	atomic.AddInt32(&f.active, 1)
	defer atomic.AddInt32(&f.active, -1)
	c := BackendCall{Proto: "http", Method: r.Method, Target: r.URL.RequestURI(), Tag: r.Header.Get(StandInTagHeader),
		Write: r.Method != http.MethodGet && r.Method != http.MethodHead}
	c.Dir, c.Name = path.Split(r.URL.Path)
	// log on arrival (an upload whose body is cut still counts as having reached the filer)
	f.record(c)
	n, _ := io.Copy(ioutil.Discard, r.Body)
	switch r.Method {
	case http.MethodGet, http.MethodHead:
		body := []byte("stand-in object data\n")
		w.Header().Set("Content-Type", "application/octet-stream")
		w.Header().Set("Content-Length", fmt.Sprint(len(body)))
		w.Header().Set("ETag", "\"5d41402abc4b2a76b9719d911017c592\"")
		w.Header().Set("Last-Modified", "Mon, 02 Jan 2006 15:04:05 GMT")
		w.WriteHeader(200)
		if r.Method == http.MethodGet {
			w.Write(body)
		}
	case http.MethodDelete:
		w.WriteHeader(http.StatusNoContent)
	default:
		b, _ := json.Marshal(map[string]interface{}{"name": path.Base(r.URL.Path), "size": n})
		w.Header().Set("Content-Type", "application/json")
		w.Header().Set("Content-Length", fmt.Sprint(len(b)))
		w.WriteHeader(http.StatusCreated)
		w.Write(b)
	}
}

// ---------------------------------------------------------------- gRPC side

func isBackgroundMethod(full string) bool {
	return strings.HasSuffix(full, "/SubscribeMetadata") || strings.HasSuffix(full, "/SubscribeLocalMetadata") ||
		strings.HasSuffix(full, "/KeepConnected")
}

func describeGrpc(full string, req interface{}) BackendCall {
	c := BackendCall{Proto: "grpc", Method: full, Background: isBackgroundMethod(full)}
	switch m := req.(type) {
	case *filer_pb.LookupDirectoryEntryRequest:
		c.Dir, c.Name = m.Directory, m.Name
	case *filer_pb.ListEntriesRequest:
		c.Dir = m.Directory
		c.Target = m.Directory + "/ prefix=" + m.Prefix + " start=" + m.StartFromFileName
	case *filer_pb.CreateEntryRequest:
		c.Dir, c.Write = m.Directory, true
		if m.Entry != nil {
			c.Name = m.Entry.Name
		}
	case *filer_pb.UpdateEntryRequest:
		c.Dir, c.Write = m.Directory, true
		if m.Entry != nil {
			c.Name = m.Entry.Name
		}
	case *filer_pb.AppendToEntryRequest:
		c.Dir, c.Name, c.Write = m.Directory, m.EntryName, true
	case *filer_pb.DeleteEntryRequest:
		c.Dir, c.Name, c.Write = m.Directory, m.Name, true
	case *filer_pb.AtomicRenameEntryRequest:
		c.Dir, c.Name, c.Write = m.OldDirectory, m.OldName, true
		c.Target = m.OldDirectory + "/" + m.OldName + " -> " + m.NewDirectory + "/" + m.NewName
	case *filer_pb.DeleteCollectionRequest:
		c.Write = true
		c.Target = "collection=" + m.Collection
		c.Name = m.Collection
	case *filer_pb.CollectionListRequest:
		c.Target = "collections"
	case *filer_pb.SubscribeMetadataRequest:
		c.Target = "prefix=" + m.PathPrefix
	case *filer_pb.KvPutRequest:
		c.Write = true
		c.Target = "kv=" + string(m.Key)
	case *filer_pb.KvGetRequest:
		c.Target = "kv=" + string(m.Key)
	case *filer_pb.AssignVolumeRequest:
		c.Write = true
		c.Target = "assign collection=" + m.Collection + " path=" + m.Path
	default:
		if req != nil {
			c.Target = fmt.Sprintf("%T", req)
		}
	}
	if c.Target == "" {
		c.Target = strings.TrimSuffix(c.Dir, "/") + "/" + c.Name
	}
	return c
}

func (f *FilerStandIn) unaryInterceptor(ctx context.Context, req interface{}, info *grpc.UnaryServerInfo, handler grpc.UnaryHandler) (interface{}, error) {
	atomic.AddInt32(&f.active, 1)
	defer atomic.AddInt32(&f.active, -1)
	f.record(describeGrpc(info.FullMethod, req))
	return handler(ctx, req)
}

type recordingStream struct {
	grpc.ServerStream
	f      *FilerStandIn
	method string
	logged bool
}

func (s *recordingStream) RecvMsg(m interface{}) error {
	err := s.ServerStream.RecvMsg(m)
	if err == nil && !s.logged {
		s.logged = true
		s.f.record(describeGrpc(s.method, m))
	}
	return err
}

func (f *FilerStandIn) streamInterceptor(srv interface{}, ss grpc.ServerStream, info *grpc.StreamServerInfo, handler grpc.StreamHandler) error {
	bg := isBackgroundMethod(info.FullMethod)
	if !bg {
		atomic.AddInt32(&f.active, 1)
		defer atomic.AddInt32(&f.active, -1)
	}
	rs := &recordingStream{ServerStream: ss, f: f, method: info.FullMethod}
	err := handler(srv, rs)
	if !rs.logged {
		f.record(describeGrpc(info.FullMethod, nil))
	}
	return err
}

func (f *FilerStandIn) unknownService(srv interface{}, stream grpc.ServerStream) error {
	method, _ := grpc.MethodFromServerStream(stream)
	c := BackendCall{Proto: "grpc", Method: method, Target: "(unknown service)", Unknown: true, Write: true, Background: isBackgroundMethod(method)}
	f.record(c)
	return status.Errorf(codes.Unimplemented, "stand-in: unknown method %s", method)
}

// standInFiler answers the SeaweedFiler methods the S3 gateway uses.
type standInFiler struct {
	filer_pb.UnimplementedSeaweedFilerServer
	f *FilerStandIn
}

func standInAttr(dir bool) *filer_pb.FuseAttributes {
	a := &filer_pb.FuseAttributes{Mtime: 1600000000, Crtime: 1600000000, FileMode: 0660, FileSize: 21}
	if dir {
		a.FileMode = 0770 | (1 << 31)
		a.FileSize = 0
	}
	return a
}

func (f *FilerStandIn) defaultLookup(dir, name string) *filer_pb.Entry {
	f.mu.Lock()
	be := f.bucketsExist
	f.mu.Unlock()
	dir = strings.TrimSuffix(dir, "/")
	switch {
	case dir == f.BucketsPath:
		if !be {
			return nil
		}
		return &filer_pb.Entry{Name: name, IsDirectory: true, Attributes: standInAttr(true)}
	case strings.HasSuffix(dir, "/.uploads"):
		return &filer_pb.Entry{Name: name, IsDirectory: true, Attributes: standInAttr(true),
			Extended: map[string][]byte{"key": []byte("k1")}}
	}
	return &filer_pb.Entry{Name: name, Attributes: standInAttr(false),
		Extended: map[string][]byte{"X-Amz-Tagging-color": []byte("blue")},
		Chunks:   []*filer_pb.FileChunk{{FileId: "3,01637037d6", Size: 21, Mtime: 1600000000, ETag: "5d41402abc4b2a76b9719d911017c592"}}}
}

func (f *FilerStandIn) defaultList(dir string) []*filer_pb.Entry {
	dir = strings.TrimSuffix(dir, "/")
	switch {
	case dir == f.BucketsPath:
		var out []*filer_pb.Entry
		f.mu.Lock()
		for _, b := range f.buckets {
			out = append(out, &filer_pb.Entry{Name: b, IsDirectory: true, Attributes: standInAttr(true)})
		}
		f.mu.Unlock()
		return out
	case strings.HasSuffix(dir, "/.uploads"):
		return []*filer_pb.Entry{{Name: "upload-1", IsDirectory: true, Attributes: standInAttr(true),
			Extended: map[string][]byte{"key": []byte("k1")}}}
	case strings.Contains(dir, "/.uploads/"):
		var out []*filer_pb.Entry
		for _, n := range []string{"0001.part", "0002.part"} {
			out = append(out, &filer_pb.Entry{Name: n, Attributes: standInAttr(false),
				Chunks: []*filer_pb.FileChunk{{FileId: "3,01637037d6", Size: 21, Mtime: 1600000000, ETag: "5d41402abc4b2a76b9719d911017c592"}}})
		}
		return out
	}
	return []*filer_pb.Entry{
		{Name: "k1", Attributes: standInAttr(false)},
		{Name: "k2.txt", Attributes: standInAttr(false)},
	}
}

func (s *standInFiler) LookupDirectoryEntry(ctx context.Context, req *filer_pb.LookupDirectoryEntryRequest) (*filer_pb.LookupDirectoryEntryResponse, error) {
	e := s.f.LookupFn(req.Directory, req.Name)
	if e == nil {
		return &filer_pb.LookupDirectoryEntryResponse{}, filer_pb.ErrNotFound
	}
	return &filer_pb.LookupDirectoryEntryResponse{Entry: e}, nil
}

func (s *standInFiler) ListEntries(req *filer_pb.ListEntriesRequest, stream filer_pb.SeaweedFiler_ListEntriesServer) error {
	n := uint32(0)
	for _, e := range s.f.ListFn(req.Directory) {
		if req.Prefix != "" && !strings.HasPrefix(e.Name, req.Prefix) {
			continue
		}
		if req.StartFromFileName != "" && (e.Name < req.StartFromFileName || (e.Name == req.StartFromFileName && !req.InclusiveStartFrom)) {
			continue
		}
		if req.Limit > 0 && n >= req.Limit {
			break
		}
		if err := stream.Send(&filer_pb.ListEntriesResponse{Entry: e}); err != nil {
			return err
		}
		n++
	}
	return nil
}

func (s *standInFiler) CreateEntry(ctx context.Context, req *filer_pb.CreateEntryRequest) (*filer_pb.CreateEntryResponse, error) {
	return &filer_pb.CreateEntryResponse{}, nil
}

func (s *standInFiler) UpdateEntry(ctx context.Context, req *filer_pb.UpdateEntryRequest) (*filer_pb.UpdateEntryResponse, error) {
	return &filer_pb.UpdateEntryResponse{}, nil
}

func (s *standInFiler) AppendToEntry(ctx context.Context, req *filer_pb.AppendToEntryRequest) (*filer_pb.AppendToEntryResponse, error) {
	return &filer_pb.AppendToEntryResponse{}, nil
}

func (s *standInFiler) DeleteEntry(ctx context.Context, req *filer_pb.DeleteEntryRequest) (*filer_pb.DeleteEntryResponse, error) {
	return &filer_pb.DeleteEntryResponse{}, nil
}

func (s *standInFiler) AtomicRenameEntry(ctx context.Context, req *filer_pb.AtomicRenameEntryRequest) (*filer_pb.AtomicRenameEntryResponse, error) {
	return &filer_pb.AtomicRenameEntryResponse{}, nil
}

func (s *standInFiler) CollectionList(ctx context.Context, req *filer_pb.CollectionListRequest) (*filer_pb.CollectionListResponse, error) {
	return &filer_pb.CollectionListResponse{}, nil
}

func (s *standInFiler) DeleteCollection(ctx context.Context, req *filer_pb.DeleteCollectionRequest) (*filer_pb.DeleteCollectionResponse, error) {
	return &filer_pb.DeleteCollectionResponse{}, nil
}

func (s *standInFiler) GetFilerConfiguration(ctx context.Context, req *filer_pb.GetFilerConfigurationRequest) (*filer_pb.GetFilerConfigurationResponse, error) {
	return &filer_pb.GetFilerConfigurationResponse{DirBuckets: s.f.BucketsPath, MaxMb: 4}, nil
}

func (s *standInFiler) KvGet(ctx context.Context, req *filer_pb.KvGetRequest) (*filer_pb.KvGetResponse, error) {
	return &filer_pb.KvGetResponse{}, nil
}

func (s *standInFiler) KvPut(ctx context.Context, req *filer_pb.KvPutRequest) (*filer_pb.KvPutResponse, error) {
	return &filer_pb.KvPutResponse{}, nil
}

func (s *standInFiler) subscribe(stream grpc.ServerStream, send func(*filer_pb.SubscribeMetadataResponse) error) error {
	ch := make(chan *filer_pb.SubscribeMetadataResponse, 16)
	s.f.mu.Lock()
	s.f.subSeq++
	id := s.f.subSeq
	s.f.subs[id] = ch
	s.f.mu.Unlock()
	defer func() {
		s.f.mu.Lock()
		delete(s.f.subs, id)
		s.f.mu.Unlock()
	}()
	for {
		select {
		case ev := <-ch:
			if err := send(ev); err != nil {
				return err
			}
		case <-stream.Context().Done():
			return nil
		case <-s.f.stop:
			return nil
		}
	}
}

func (s *standInFiler) SubscribeMetadata(req *filer_pb.SubscribeMetadataRequest, stream filer_pb.SeaweedFiler_SubscribeMetadataServer) error {
	return s.subscribe(stream, stream.Send)
}

func (s *standInFiler) SubscribeLocalMetadata(req *filer_pb.SubscribeMetadataRequest, stream filer_pb.SeaweedFiler_SubscribeLocalMetadataServer) error {
	return s.subscribe(stream, stream.Send)
}
