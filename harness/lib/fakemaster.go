package lib

// FakeMaster is a harness-side gRPC master (service master_pb.Seaweed) whose
// KeepConnected stream sends scripted VolumeLocation messages to a real
// wdclient.MasterClient. It is an observer / driver at a real network boundary:
// the client code under test (stream receive loop, vidMap updates, reconnect) is
// the real one.
//
// Per connected client name the fake keeps the "topology" it has announced so far
// and replays it when the client connects again, the way the real master does in
// MasterServer.KeepConnected (one message per volume server with all its volume
// ids as NewVids).

import (
	"fmt"
	"net"
	"sort"
	"sync"
	"time"

	"google.golang.org/grpc"

	"github.com/chrislusf/seaweedfs/weed/pb/master_pb"
)

type fmItem struct {
	msg  *master_pb.VolumeLocation
	drop bool
	done chan error
}

type fmNode struct {
	url, publicUrl, dc string
	vids               map[uint32]struct{}
}

func (n *fmNode) sortedVids() []uint32 {
	out := make([]uint32, 0, len(n.vids))
	for v := range n.vids {
		out = append(out, v)
	}
	sort.Slice(out, func(i, j int) bool { return out[i] < out[j] })
	return out
}

type fmClient struct {
	name     string
	ch       chan fmItem // to the live session
	sessions int         // streams established so far
	live     bool
	nodes    []*fmNode // replay state, in order of first appearance
}

// FakeMaster serves master_pb.Seaweed on 127.0.0.1:(Port+10000).
type FakeMaster struct {
	master_pb.UnimplementedSeaweedServer
	Port int
	srv  *grpc.Server
	lis  net.Listener

	mu      sync.Mutex
	cond    *sync.Cond
	clients map[string]*fmClient
	// ReplayWithDataCenter: include the data center in replayed messages (the real
	// master's ToVolumeLocations leaves it empty).
	ReplayWithDataCenter bool
	// LeaderHint, when set for a client name, is sent instead of serving the stream once.
	leaderHint map[string]string
}

// NewFakeMaster starts the fake on a fresh port pair.
func NewFakeMaster() (*FakeMaster, error) {
	var lastErr error
	for i := 0; i < 20; i++ {
		p := FreePort()
		lis, err := net.Listen("tcp", fmt.Sprintf("127.0.0.1:%d", p+10000))
		if err != nil {
			lastErr = err
			continue
		}
		m := &FakeMaster{Port: p, lis: lis, clients: map[string]*fmClient{}, leaderHint: map[string]string{}, ReplayWithDataCenter: true}
		m.cond = sync.NewCond(&m.mu)
		m.srv = grpc.NewServer()
		master_pb.RegisterSeaweedServer(m.srv, m)
		go func() { _ = m.srv.Serve(lis) }()
		return m, nil
	}
	return nil, lastErr
}

// Addr is the address a MasterClient is given (its gRPC twin is Port+10000).
func (m *FakeMaster) Addr() string { return fmt.Sprintf("127.0.0.1:%d", m.Port) }

func (m *FakeMaster) Stop() { m.srv.Stop() }

func (m *FakeMaster) client(name string) *fmClient {
	c := m.clients[name]
	if c == nil {
		c = &fmClient{name: name}
		m.clients[name] = c
	}
	return c
}

// KeepConnected implements the stream: replay, then scripted messages.
func (m *FakeMaster) KeepConnected(stream master_pb.Seaweed_KeepConnectedServer) error {
	req, err := stream.Recv()
	if err != nil {
		return err
	}
	m.mu.Lock()
	if hint := m.leaderHint[req.Name]; hint != "" {
		delete(m.leaderHint, req.Name)
		m.mu.Unlock()
		return stream.Send(&master_pb.VolumeLocation{Leader: hint})
	}
	c := m.client(req.Name)
	ch := make(chan fmItem)
	var replay []*master_pb.VolumeLocation
	for _, n := range c.nodes {
		if len(n.vids) == 0 {
			continue
		}
		msg := &master_pb.VolumeLocation{Url: n.url, PublicUrl: n.publicUrl, NewVids: n.sortedVids()}
		if m.ReplayWithDataCenter {
			msg.DataCenter = n.dc
		}
		replay = append(replay, msg)
	}
	m.mu.Unlock()
	for _, msg := range replay {
		if err := stream.Send(msg); err != nil {
			return err
		}
	}
	m.mu.Lock()
	c.ch = ch
	c.live = true
	c.sessions++
	m.cond.Broadcast()
	m.mu.Unlock()
	defer func() {
		m.mu.Lock()
		if c.ch == ch {
			c.live = false
			c.ch = nil
		}
		m.cond.Broadcast()
		m.mu.Unlock()
	}()
	for {
		select {
		case it := <-ch:
			if it.drop {
				it.done <- nil
				return nil
			}
			err := stream.Send(it.msg)
			it.done <- err
			if err != nil {
				return err
			}
		case <-stream.Context().Done():
			return nil
		}
	}
}

// WaitSession blocks until the client has established at least n streams and one
// is live (bounded by a generous wall-clock limit; false = harness-side failure).
func (m *FakeMaster) WaitSession(name string, n int, limit time.Duration) bool {
	deadline := time.Now().Add(limit)
	stop := make(chan struct{})
	defer close(stop)
	go func() { // wake the waiter for the deadline check
		t := time.NewTicker(50 * time.Millisecond)
		defer t.Stop()
		for {
			select {
			case <-t.C:
				m.cond.Broadcast()
			case <-stop:
				return
			}
		}
	}()
	m.mu.Lock()
	defer m.mu.Unlock()
	for {
		c := m.client(name)
		if c.sessions >= n && c.live {
			return true
		}
		if time.Now().After(deadline) {
			return false
		}
		m.cond.Wait()
	}
}

// Sessions returns how many streams the client has established so far.
func (m *FakeMaster) Sessions(name string) int {
	m.mu.Lock()
	defer m.mu.Unlock()
	return m.client(name).sessions
}

func (c *fmClient) node(url string) *fmNode {
	for _, n := range c.nodes {
		if n.url == url {
			return n
		}
	}
	return nil
}

// record applies msg to the replay state of the client.
func (c *fmClient) record(msg *master_pb.VolumeLocation) {
	n := c.node(msg.Url)
	if n == nil {
		n = &fmNode{url: msg.Url, vids: map[uint32]struct{}{}}
		c.nodes = append(c.nodes, n)
	}
	n.publicUrl, n.dc = msg.PublicUrl, msg.DataCenter
	for _, v := range msg.NewVids {
		n.vids[v] = struct{}{}
	}
	for _, v := range msg.DeletedVids {
		delete(n.vids, v)
	}
}

// Send pushes one message down the live stream of the client and returns once
// the gRPC layer accepted it. remember=false keeps it out of the replay state
// (sentinels).
func (m *FakeMaster) Send(name string, msg *master_pb.VolumeLocation, remember bool) error {
	m.mu.Lock()
	c := m.client(name)
	ch := c.ch
	if ch == nil || !c.live {
		m.mu.Unlock()
		return fmt.Errorf("fake master: client %s has no live stream", name)
	}
	if remember {
		c.record(msg)
	}
	m.mu.Unlock()
	it := fmItem{msg: msg, done: make(chan error, 1)}
	select {
	case ch <- it:
		return <-it.done
	case <-time.After(30 * time.Second):
		return fmt.Errorf("fake master: stream of %s does not take messages", name)
	}
}

// Drop ends the live stream of the client (the client then resets its map and reconnects).
func (m *FakeMaster) Drop(name string) error {
	m.mu.Lock()
	c := m.client(name)
	ch := c.ch
	m.mu.Unlock()
	if ch == nil {
		return fmt.Errorf("fake master: client %s has no live stream", name)
	}
	it := fmItem{drop: true, done: make(chan error, 1)}
	select {
	case ch <- it:
		<-it.done
		return nil
	case <-time.After(30 * time.Second):
		return fmt.Errorf("fake master: stream of %s does not take messages", name)
	}
}

// HintLeaderOnce makes the next KeepConnected of the client answer with a leader redirect.
func (m *FakeMaster) HintLeaderOnce(name, leader string) {
	m.mu.Lock()
	m.leaderHint[name] = leader
	m.mu.Unlock()
}

// CopyStateTo copies the replay state of a client to another fake master (leader change).
func (m *FakeMaster) CopyStateTo(name string, other *FakeMaster) {
	m.mu.Lock()
	var nodes []*fmNode
	for _, n := range m.client(name).nodes {
		cp := &fmNode{url: n.url, publicUrl: n.publicUrl, dc: n.dc, vids: map[uint32]struct{}{}}
		for v := range n.vids {
			cp.vids[v] = struct{}{}
		}
		nodes = append(nodes, cp)
	}
	m.mu.Unlock()
	other.mu.Lock()
	other.client(name).nodes = nodes
	other.mu.Unlock()
}
