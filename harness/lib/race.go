package lib

import (
	"io/ioutil"
	"os"
	"path/filepath"
	"sort"
	"strings"
)

// RaceReport is one "WARNING: DATA RACE" block from a race-detector log.
type RaceReport struct {
	Stacks [][]string // per stack: function names, innermost first
	Text   string
}


// RaceLogPath returns the log_path configured through GORACE for this process ("" if none).
func RaceLogPath() string {
	for _, f := range strings.Fields(os.Getenv("GORACE")) {
		if strings.HasPrefix(f, "log_path=") {
			return strings.TrimPrefix(f, "log_path=")
		}
	}
	return ""
}

// ParseRaceLogs parses every file matching prefix* as race-detector output.
func ParseRaceLogs(prefix string) []RaceReport {
	if prefix == "" {
		return nil
	}
	files, _ := filepath.Glob(prefix + "*")
	var out []RaceReport
	for _, f := range files {
		b, err := ioutil.ReadFile(f)
		if err != nil {
			continue
		}
		out = append(out, parseRaceText(string(b))...)
	}
	return out
}

func parseRaceText(s string) []RaceReport {
	var out []RaceReport
	blocks := strings.Split(s, "WARNING: DATA RACE")
	for _, blk := range blocks[1:] {
		if i := strings.Index(blk, "=================="); i >= 0 {
			blk = blk[:i]
		}
		rep := RaceReport{Text: "WARNING: DATA RACE" + blk}
		var cur []string
		inAccess := false
		for _, line := range strings.Split(blk, "\n") {
			switch {
			case strings.HasPrefix(line, "Read at ") || strings.HasPrefix(line, "Write at ") ||
				strings.HasPrefix(line, "Previous read at ") || strings.HasPrefix(line, "Previous write at ") ||
				strings.HasPrefix(line, "Atomic") || strings.HasPrefix(line, "Previous atomic"):
				if cur != nil {
					rep.Stacks = append(rep.Stacks, cur)
				}
				cur = []string{}
				inAccess = true
			case strings.HasPrefix(line, "Goroutine ") || strings.HasPrefix(line, "Mutex "):
				if cur != nil && inAccess {
					rep.Stacks = append(rep.Stacks, cur)
				}
				cur = nil
				inAccess = false
			case inAccess && strings.HasPrefix(line, "  ") && !strings.HasPrefix(line, "   "):
				fn := strings.TrimSpace(line)
				if i := strings.LastIndex(fn, "("); i > 0 {
					fn = fn[:i]
				}
				cur = append(cur, fn)
			}
		}
		if cur != nil && inAccess {
			rep.Stacks = append(rep.Stacks, cur)
		}
		out = append(out, rep)
	}
	return out
}

// InComponent reports whether both access stacks of the report contain a frame
// whose function name contains one of the given substrings.
func (rr RaceReport) InComponent(subs ...string) bool {
	if len(rr.Stacks) < 2 {
		return false
	}
	for _, st := range rr.Stacks[:2] {
		found := false
		for _, fn := range st {
			for _, s := range subs {
				if strings.Contains(fn, s) {
					found = true
				}
			}
		}
		if !found {
			return false
		}
	}
	return true
}

// Signature is the dedup key: the outermost seaweedfs frames of both stacks plus
// the innermost frames.
func (rr RaceReport) Signature() string {
	var parts []string
	for _, st := range rr.Stacks {
		inner, outer := "", ""
		for _, fn := range st {
			if strings.Contains(fn, "seaweedfs") || strings.Contains(fn, "verifharness") || strings.HasPrefix(fn, "main.") {
				if inner == "" {
					inner = fn
				}
				outer = fn
			}
		}
		if inner == "" && len(st) > 0 {
			inner = st[0]
		}
		parts = append(parts, inner+"<-"+outer)
	}
	if len(parts) > 2 {
		parts = parts[:2]
	}
	sort.Strings(parts)
	return strings.Join(parts, " | ")
}

// DedupRaces groups reports by signature.
func DedupRaces(reps []RaceReport) map[string][]RaceReport {
	m := make(map[string][]RaceReport)
	for _, r := range reps {
		m[r.Signature()] = append(m[r.Signature()], r)
	}
	return m
}
