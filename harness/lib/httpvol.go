package lib

// Helpers for drivers that talk HTTP to a real volume server of an S2 cluster
// (C32, C33, C34, C01H): master /dir/assign, file id handling, a plain HTTP client
// without transparent gzip, and the security.toml writer for JWT-protected servers.

import (
	"encoding/json"
	"fmt"
	"io/ioutil"
	"net"
	"net/http"
	"os"
	"path/filepath"
	"strings"
	"time"
)

// Assigned is the answer of the master's /dir/assign.
type Assigned struct {
	Fid       string `json:"fid"`
	Url       string `json:"url"`
	PublicUrl string `json:"publicUrl"`
	Count     uint64 `json:"count"`
	Error     string `json:"error"`
	Auth      string `json:"-"` // token minted by the master ("Authorization: BEARER x" response header), "" if none
}

// Assign asks the master for a file id. query is the raw query string ("" = none).
func (c *Cluster) Assign(query string) (*Assigned, error) { return AssignAt(c.Master.Url(), query) }

// AssignAt is Assign for a master given by its base URL (for child processes that
// do not own the Cluster object).
func AssignAt(masterUrl string, query string) (*Assigned, error) {
	u := masterUrl + "/dir/assign"
	if query != "" {
		u += "?" + query
	}
	var lastErr error
	for try := 0; try < 20; try++ {
		resp, err := http.Get(u)
		if err != nil {
			lastErr = err
			time.Sleep(300 * time.Millisecond)
			continue
		}
		b, _ := ioutil.ReadAll(resp.Body)
		resp.Body.Close()
		var a Assigned
		if e := json.Unmarshal(b, &a); e != nil || a.Fid == "" || a.Error != "" {
			lastErr = fmt.Errorf("assign: status %d body %s", resp.StatusCode, strings.TrimSpace(string(b)))
			time.Sleep(300 * time.Millisecond)
			continue
		}
		if h := resp.Header.Get("Authorization"); len(h) > 7 {
			a.Auth = h[7:]
		}
		return &a, nil
	}
	return nil, lastErr
}

// SplitFid splits "3,01637037d6" into ("3", "01637037d6").
func SplitFid(fid string) (vid, keyCookie string) {
	i := strings.Index(fid, ",")
	if i < 0 {
		return fid, ""
	}
	return fid[:i], fid[i+1:]
}

// FidWithCookie replaces the cookie (last 8 hex digits) of a file id.
func FidWithCookie(fid string, cookie uint32) string {
	vid, kc := SplitFid(fid)
	if len(kc) <= 8 {
		return fid
	}
	return vid + "," + kc[:len(kc)-8] + fmt.Sprintf("%08x", cookie)
}

// PlainHTTPClient returns an HTTP client that never adds Accept-Encoding on its
// own, never decodes gzip transparently and never follows redirects: the driver
// sees status, headers and body exactly as the server sent them.
func PlainHTTPClient() *http.Client {
	tr := &http.Transport{
		DisableCompression:  true,
		MaxIdleConns:        64,
		MaxIdleConnsPerHost: 64,
		IdleConnTimeout:     30 * time.Second,
		DialContext:         (&net.Dialer{Timeout: 10 * time.Second}).DialContext,
	}
	return &http.Client{Transport: tr, Timeout: 60 * time.Second,
		CheckRedirect: func(req *http.Request, via []*http.Request) error { return http.ErrUseLastResponse }}
}

// WriteSecurityToml writes a security.toml with the given JWT keys ("" = not set)
// into dir (created), the working directory a weed process is then started in.
// The expiry settings only affect tokens minted by the master.
func WriteSecurityToml(dir, writeKey, readKey string) error {
	if err := os.MkdirAll(dir, 0755); err != nil {
		return err
	}
	s := fmt.Sprintf("[jwt.signing]\nkey = %q\nexpires_after_seconds = 3600\n\n[jwt.signing.read]\nkey = %q\nexpires_after_seconds = 3600\n", writeKey, readKey)
	return ioutil.WriteFile(filepath.Join(dir, "security.toml"), []byte(s), 0644)
}

// VolumeDir is the working directory StartVolume will use for the i-th volume
// server (so that a security.toml can be put there before it starts).
func (c *Cluster) VolumeDir(i int) string { return filepath.Join(c.Root, fmt.Sprintf("volume%d", i)) }

// MasterDir is the working directory StartMaster uses.
func (c *Cluster) MasterDir() string { return filepath.Join(c.Root, "master") }
