package lib

// Shared S3-client helpers of the S3 gateway drivers (C27, C28, C29):
// a raw-socket HTTP/1.1 client that sends the request target verbatim (no path
// normalisation, no re-encoding), XML result types, a SigV4 signer (header,
// streaming chunks, POST policy) and a recursive dump of the filer namespace
// through the filer's own gRPC API.

import (
	"bufio"
	"bytes"
	"context"
	"crypto/hmac"
	"crypto/sha256"
	"encoding/base64"
	"encoding/hex"
	"encoding/json"
	"encoding/xml"
	"fmt"
	"io"
	"io/ioutil"
	"net"
	"net/http"
	"os"
	"sort"
	"strings"
	"sync"
	"time"

	"github.com/chrislusf/seaweedfs/weed/pb/filer_pb"
	"google.golang.org/grpc"
)

// ---------------------------------------------------------------- raw HTTP

// RawResp is a fully read HTTP response.
type RawResp struct {
	Status int
	Header http.Header
	Body   []byte
}

// RawHTTP is a keep-alive HTTP/1.1 client over a plain socket; not safe for
// concurrent use (one per goroutine).
type RawHTTP struct {
	Addr    string
	Timeout time.Duration
	conn    net.Conn
	br      *bufio.Reader
	Reqs    int64
}

func NewRawHTTP(addr string) *RawHTTP { return &RawHTTP{Addr: addr, Timeout: 120 * time.Second} }

func (c *RawHTTP) Close() {
	if c.conn != nil {
		c.conn.Close()
		c.conn = nil
	}
}

// Do sends "<method> <target> HTTP/1.1" with the target bytes exactly as given.
// hdr is a list of name,value pairs (Host and Content-Length are added unless
// present). A request on a reused connection that fails before any response
// byte is retried once on a fresh connection.
func (c *RawHTTP) Do(method, target string, hdr []string, body []byte) (*RawResp, error) {
	var lastErr error
	for attempt := 0; attempt < 2; attempt++ {
		reused := c.conn != nil
		if c.conn == nil {
			conn, err := net.DialTimeout("tcp", c.Addr, 10*time.Second)
			if err != nil {
				return nil, err
			}
			c.conn = conn
			c.br = bufio.NewReaderSize(conn, 64<<10)
		}
		resp, err := c.once(method, target, hdr, body)
		if err == nil {
			return resp, nil
		}
		lastErr = err
		c.Close()
		if !reused {
			break
		}
	}
	return nil, lastErr
}

func (c *RawHTTP) once(method, target string, hdr []string, body []byte) (*RawResp, error) {
	c.Reqs++
	var b bytes.Buffer
	b.WriteString(method + " " + target + " HTTP/1.1\r\n")
	hasHost, hasCL, chunked := false, false, false
	for i := 0; i+1 < len(hdr); i += 2 {
		switch strings.ToLower(hdr[i]) {
		case "host":
			hasHost = true
		case "content-length":
			hasCL = true
		case "transfer-encoding":
			chunked = true
		}
		b.WriteString(hdr[i] + ": " + hdr[i+1] + "\r\n")
	}
	if !hasHost {
		b.WriteString("Host: " + c.Addr + "\r\n")
	}
	if !hasCL && !chunked && (len(body) > 0 || method == "PUT" || method == "POST") {
		b.WriteString(fmt.Sprintf("Content-Length: %d\r\n", len(body)))
	}
	b.WriteString("\r\n")
	_ = c.conn.SetDeadline(time.Now().Add(c.Timeout))
	if _, err := c.conn.Write(b.Bytes()); err != nil {
		return nil, err
	}
	if len(body) > 0 {
		if _, err := c.conn.Write(body); err != nil {
			return nil, err
		}
	}
	resp, err := http.ReadResponse(c.br, &http.Request{Method: method})
	if err != nil {
		return nil, err
	}
	data, err := ioutil.ReadAll(resp.Body)
	resp.Body.Close()
	if err != nil {
		return nil, err
	}
	if resp.Close || resp.ProtoMinor == 0 {
		c.Close()
	}
	return &RawResp{Status: resp.StatusCode, Header: resp.Header, Body: data}, nil
}

// S3PathEscape percent-encodes every byte of a key except unreserved characters
// and '/', so the server's URL decoder yields the key bytes unchanged.
func S3PathEscape(key string) string {
	var b strings.Builder
	for i := 0; i < len(key); i++ {
		ch := key[i]
		switch {
		case ch >= 'a' && ch <= 'z', ch >= 'A' && ch <= 'Z', ch >= '0' && ch <= '9',
			ch == '-', ch == '_', ch == '.', ch == '~', ch == '/':
			b.WriteByte(ch)
		default:
			b.WriteString(fmt.Sprintf("%%%02X", ch))
		}
	}
	return b.String()
}

// S3QueryEscape percent-encodes a query value ('/' included).
func S3QueryEscape(v string) string {
	return strings.ReplaceAll(S3PathEscape(v), "/", "%2F")
}

// ---------------------------------------------------------------- XML types

type S3ListEntry struct {
	Key  string `xml:"Key"`
	Size int64  `xml:"Size"`
	ETag string `xml:"ETag"`
}

type S3Prefix struct {
	Prefix string `xml:"Prefix"`
}

// S3ListResult covers both ListObjects V1 and V2 answers.
type S3ListResult struct {
	XMLName               xml.Name      `xml:"ListBucketResult"`
	Name                  string        `xml:"Name"`
	Prefix                string        `xml:"Prefix"`
	Marker                string        `xml:"Marker"`
	NextMarker            string        `xml:"NextMarker"`
	MaxKeys               int           `xml:"MaxKeys"`
	Delimiter             string        `xml:"Delimiter"`
	IsTruncated           bool          `xml:"IsTruncated"`
	Contents              []S3ListEntry `xml:"Contents"`
	CommonPrefixes        []S3Prefix    `xml:"CommonPrefixes"`
	ContinuationToken     string        `xml:"ContinuationToken"`
	NextContinuationToken string        `xml:"NextContinuationToken"`
	KeyCount              int           `xml:"KeyCount"`
	StartAfter            string        `xml:"StartAfter"`
}

type S3InitiateResult struct {
	XMLName  xml.Name `xml:"InitiateMultipartUploadResult"`
	Bucket   string   `xml:"Bucket"`
	Key      string   `xml:"Key"`
	UploadId string   `xml:"UploadId"`
}

type S3CompleteResult struct {
	XMLName  xml.Name `xml:"CompleteMultipartUploadResult"`
	Location string   `xml:"Location"`
	Bucket   string   `xml:"Bucket"`
	Key      string   `xml:"Key"`
	ETag     string   `xml:"ETag"`
}

type S3DeleteResult struct {
	XMLName xml.Name `xml:"DeleteResult"`
	Deleted []struct {
		Key string `xml:"Key"`
	} `xml:"Deleted"`
	Errors []struct {
		Key     string `xml:"Key"`
		Code    string `xml:"Code"`
		Message string `xml:"Message"`
	} `xml:"Error"`
}

type S3Error struct {
	XMLName xml.Name `xml:"Error"`
	Code    string   `xml:"Code"`
	Message string   `xml:"Message"`
}

type S3ListPartsResult struct {
	XMLName     xml.Name `xml:"ListPartsResult"`
	IsTruncated bool     `xml:"IsTruncated"`
	Parts       []struct {
		PartNumber int    `xml:"PartNumber"`
		Size       int64  `xml:"Size"`
		ETag       string `xml:"ETag"`
	} `xml:"Part"`
}

type S3ListUploadsResult struct {
	XMLName xml.Name `xml:"ListMultipartUploadsResult"`
	Uploads []struct {
		Key      string `xml:"Key"`
		UploadId string `xml:"UploadId"`
	} `xml:"Upload"`
}

// S3ErrCode extracts the <Code> of an S3 error body ("" when it is none).
func S3ErrCode(body []byte) string {
	var e S3Error
	if xml.Unmarshal(body, &e) == nil {
		return e.Code
	}
	return ""
}

// ---------------------------------------------------------------- S3 client

// S3 is a minimal S3 client over RawHTTP (path-style addressing). When AccessKey
// is set every request is signed with SigV4 (UNSIGNED-PAYLOAD).
type S3 struct {
	H         *RawHTTP
	AccessKey string
	Secret    string
	Region    string
}

func NewS3(addr string) *S3 { return &S3{H: NewRawHTTP(addr), Region: "us-east-1"} }

// Raw sends a request whose target is given verbatim.
func (s *S3) Raw(method, target string, hdr []string, body []byte) (*RawResp, error) {
	if s.AccessKey != "" {
		hdr = SignV4Header(method, target, s.H.Addr, hdr, "UNSIGNED-PAYLOAD", s.AccessKey, s.Secret, s.Region, time.Now().UTC())
	}
	return s.H.Do(method, target, hdr, body)
}

func objTarget(bucket, key, query string) string {
	t := "/" + bucket + "/" + S3PathEscape(key)
	if query != "" {
		t += "?" + query
	}
	return t
}

func (s *S3) PutBucket(bucket string) (*RawResp, error) {
	return s.Raw("PUT", "/"+bucket, nil, nil)
}
func (s *S3) DeleteBucket(bucket string) (*RawResp, error) {
	return s.Raw("DELETE", "/"+bucket, nil, nil)
}
func (s *S3) PutObject(bucket, key string, body []byte, hdr ...string) (*RawResp, error) {
	return s.Raw("PUT", objTarget(bucket, key, ""), hdr, body)
}
func (s *S3) GetObject(bucket, key string, rng string) (*RawResp, error) {
	var hdr []string
	if rng != "" {
		hdr = []string{"Range", rng}
	}
	return s.Raw("GET", objTarget(bucket, key, ""), hdr, nil)
}
func (s *S3) HeadObject(bucket, key string) (*RawResp, error) {
	return s.Raw("HEAD", objTarget(bucket, key, ""), nil, nil)
}
func (s *S3) DeleteObject(bucket, key string) (*RawResp, error) {
	return s.Raw("DELETE", objTarget(bucket, key, ""), nil, nil)
}

// CopyObject copies srcBucket/srcKey to bucket/key (copy source percent-encoded as the AWS SDKs do).
func (s *S3) CopyObject(bucket, key, srcBucket, srcKey string) (*RawResp, error) {
	return s.Raw("PUT", objTarget(bucket, key, ""), []string{"X-Amz-Copy-Source", "/" + srcBucket + "/" + S3PathEscape(srcKey)}, nil)
}

func (s *S3) InitiateMultipart(bucket, key string) (string, *RawResp, error) {
	resp, err := s.Raw("POST", objTarget(bucket, key, "uploads="), nil, nil)
	if err != nil || resp.Status != 200 {
		return "", resp, err
	}
	var r S3InitiateResult
	if e := xml.Unmarshal(resp.Body, &r); e != nil {
		return "", resp, e
	}
	return r.UploadId, resp, nil
}

func (s *S3) UploadPart(bucket, key, uploadId string, part int, body []byte) (*RawResp, error) {
	return s.Raw("PUT", objTarget(bucket, key, fmt.Sprintf("partNumber=%d&uploadId=%s", part, S3QueryEscape(uploadId))), nil, body)
}

func (s *S3) UploadPartCopy(bucket, key, uploadId string, part int, srcBucket, srcKey, rng string) (*RawResp, error) {
	hdr := []string{"X-Amz-Copy-Source", "/" + srcBucket + "/" + S3PathEscape(srcKey)}
	if rng != "" {
		hdr = append(hdr, "X-Amz-Copy-Source-Range", rng)
	}
	return s.Raw("PUT", objTarget(bucket, key, fmt.Sprintf("partNumber=%d&uploadId=%s", part, S3QueryEscape(uploadId))), hdr, nil)
}

// CompleteMultipart completes an upload naming the given part numbers (ascending).
func (s *S3) CompleteMultipart(bucket, key, uploadId string, parts []int, etags map[int]string) (*RawResp, error) {
	var b strings.Builder
	b.WriteString("<CompleteMultipartUpload>")
	ps := append([]int(nil), parts...)
	sort.Ints(ps)
	for _, p := range ps {
		b.WriteString(fmt.Sprintf("<Part><PartNumber>%d</PartNumber><ETag>%s</ETag></Part>", p, etags[p]))
	}
	b.WriteString("</CompleteMultipartUpload>")
	return s.Raw("POST", objTarget(bucket, key, "uploadId="+S3QueryEscape(uploadId)), nil, []byte(b.String()))
}

func (s *S3) AbortMultipart(bucket, key, uploadId string) (*RawResp, error) {
	return s.Raw("DELETE", objTarget(bucket, key, "uploadId="+S3QueryEscape(uploadId)), nil, nil)
}

// DeleteObjects is the batch delete (POST ?delete).
func (s *S3) DeleteObjects(bucket string, keys []string) (*S3DeleteResult, *RawResp, error) {
	var b bytes.Buffer
	b.WriteString("<Delete>")
	for _, k := range keys {
		b.WriteString("<Object><Key>")
		_ = xml.EscapeText(&b, []byte(k))
		b.WriteString("</Key></Object>")
	}
	b.WriteString("</Delete>")
	resp, err := s.Raw("POST", "/"+bucket+"?delete=", []string{"Content-Type", "application/xml"}, b.Bytes())
	if err != nil || resp.Status != 200 {
		return nil, resp, err
	}
	var r S3DeleteResult
	if e := xml.Unmarshal(resp.Body, &r); e != nil {
		return nil, resp, e
	}
	return &r, resp, nil
}

// ListReq is one ListObjects request.
type ListReq struct {
	V2         bool
	Prefix     string
	Delimiter  string
	MaxKeys    int    // 0 = not sent
	Marker     string // V1
	StartAfter string // V2
	Token      string // V2
}

func (q ListReq) Query() string {
	var p []string
	if q.V2 {
		p = append(p, "list-type=2")
	}
	if q.Prefix != "" {
		p = append(p, "prefix="+S3QueryEscape(q.Prefix))
	}
	if q.Delimiter != "" {
		p = append(p, "delimiter="+S3QueryEscape(q.Delimiter))
	}
	if q.MaxKeys != 0 {
		p = append(p, fmt.Sprintf("max-keys=%d", q.MaxKeys))
	}
	if q.Marker != "" {
		p = append(p, "marker="+S3QueryEscape(q.Marker))
	}
	if q.StartAfter != "" {
		p = append(p, "start-after="+S3QueryEscape(q.StartAfter))
	}
	if q.Token != "" {
		p = append(p, "continuation-token="+S3QueryEscape(q.Token))
	}
	return strings.Join(p, "&")
}

// List issues one ListObjects request and parses the page.
func (s *S3) List(bucket string, q ListReq) (*S3ListResult, *RawResp, error) {
	t := "/" + bucket
	if qs := q.Query(); qs != "" {
		t += "?" + qs
	}
	resp, err := s.Raw("GET", t, nil, nil)
	if err != nil || resp.Status != 200 {
		return nil, resp, err
	}
	var r S3ListResult
	if e := xml.Unmarshal(resp.Body, &r); e != nil {
		return nil, resp, e
	}
	return &r, resp, nil
}

// ---------------------------------------------------------------- SigV4

func hmacSHA256(key []byte, data string) []byte {
	h := hmac.New(sha256.New, key)
	h.Write([]byte(data))
	return h.Sum(nil)
}

func sha256Hex(b []byte) string {
	h := sha256.Sum256(b)
	return hex.EncodeToString(h[:])
}

// V4SigningKey derives the SigV4 signing key.
func V4SigningKey(secret, date, region, service string) []byte {
	k := hmacSHA256([]byte("AWS4"+secret), date)
	k = hmacSHA256(k, region)
	k = hmacSHA256(k, service)
	return hmacSHA256(k, "aws4_request")
}

// SignV4Header returns hdr plus x-amz-date, x-amz-content-sha256 and Authorization
// for the request (target = escaped path[?query], simple queries only).
func SignV4Header(method, target, host string, hdr []string, payloadHash, accessKey, secret, region string, now time.Time) []string {
	out, _ := signV4(method, target, host, hdr, payloadHash, accessKey, secret, region, now)
	return out
}

func signV4(method, target, host string, hdr []string, payloadHash, accessKey, secret, region string, now time.Time) ([]string, string) {
	amzDate := now.Format("20060102T150405Z")
	date := now.Format("20060102")
	path, query := target, ""
	if i := strings.Index(target, "?"); i >= 0 {
		path, query = target[:i], target[i+1:]
	}
	// canonical query: sorted key=value, values already escaped by the caller
	var qp []string
	if query != "" {
		for _, kv := range strings.Split(query, "&") {
			if !strings.Contains(kv, "=") {
				kv += "="
			}
			qp = append(qp, kv)
		}
		sort.Strings(qp)
	}
	h := map[string]string{"host": host, "x-amz-date": amzDate, "x-amz-content-sha256": payloadHash}
	for i := 0; i+1 < len(hdr); i += 2 {
		n := strings.ToLower(hdr[i])
		if strings.HasPrefix(n, "x-amz-") || n == "content-type" || n == "content-md5" {
			h[n] = strings.TrimSpace(hdr[i+1])
		}
	}
	var names []string
	for n := range h {
		names = append(names, n)
	}
	sort.Strings(names)
	var ch strings.Builder
	for _, n := range names {
		ch.WriteString(n + ":" + h[n] + "\n")
	}
	signed := strings.Join(names, ";")
	canonical := strings.Join([]string{method, path, strings.Join(qp, "&"), ch.String(), signed, payloadHash}, "\n")
	scope := date + "/" + region + "/s3/aws4_request"
	sts := "AWS4-HMAC-SHA256\n" + amzDate + "\n" + scope + "\n" + sha256Hex([]byte(canonical))
	sig := hex.EncodeToString(hmacSHA256(V4SigningKey(secret, date, region, "s3"), sts))
	out := append([]string(nil), hdr...)
	out = append(out, "X-Amz-Date", amzDate, "X-Amz-Content-Sha256", payloadHash,
		"Authorization", fmt.Sprintf("AWS4-HMAC-SHA256 Credential=%s/%s, SignedHeaders=%s, Signature=%s", accessKey, scope, signed, sig))
	return out, sig
}

// StreamingPut builds headers and the aws-chunked body of a streaming-signed
// (STREAMING-AWS4-HMAC-SHA256-PAYLOAD) PUT with the given chunk sizes.
func StreamingPut(target, host string, data []byte, chunkSize int, accessKey, secret, region string, now time.Time) (hdr []string, body []byte) {
	if chunkSize <= 0 {
		chunkSize = 64 << 10
	}
	base := []string{"X-Amz-Decoded-Content-Length", fmt.Sprint(len(data)), "Content-Encoding", "aws-chunked"}
	hdr, seed := signV4("PUT", target, host, base, "STREAMING-AWS4-HMAC-SHA256-PAYLOAD", accessKey, secret, region, now)
	amzDate := now.Format("20060102T150405Z")
	date := now.Format("20060102")
	scope := date + "/" + region + "/s3/aws4_request"
	key := V4SigningKey(secret, date, region, "s3")
	prev := seed
	var b bytes.Buffer
	emit := func(chunk []byte) {
		sts := "AWS4-HMAC-SHA256-PAYLOAD\n" + amzDate + "\n" + scope + "\n" + prev + "\n" + sha256Hex(nil) + "\n" + sha256Hex(chunk)
		sig := hex.EncodeToString(hmacSHA256(key, sts))
		b.WriteString(fmt.Sprintf("%x;chunk-signature=%s\r\n", len(chunk), sig))
		b.Write(chunk)
		b.WriteString("\r\n")
		prev = sig
	}
	for off := 0; off < len(data); off += chunkSize {
		end := off + chunkSize
		if end > len(data) {
			end = len(data)
		}
		emit(data[off:end])
	}
	emit(nil)
	return hdr, b.Bytes()
}

// PostPolicyForm builds a multipart/form-data body for a SigV4 POST-policy upload.
func PostPolicyForm(bucket, key string, data []byte, accessKey, secret, region string, now time.Time) (contentType string, body []byte) {
	date := now.Format("20060102")
	amzDate := now.Format("20060102T150405Z")
	cred := accessKey + "/" + date + "/" + region + "/s3/aws4_request"
	policy := fmt.Sprintf(`{"expiration":"%s","conditions":[["starts-with","$key",""],{"bucket":"%s"},{"x-amz-algorithm":"AWS4-HMAC-SHA256"},{"x-amz-credential":"%s"},{"x-amz-date":"%s"}]}`,
		now.Add(time.Hour).Format("2006-01-02T15:04:05.000Z"), bucket, cred, amzDate)
	p64 := base64.StdEncoding.EncodeToString([]byte(policy))
	sig := hex.EncodeToString(hmacSHA256(V4SigningKey(secret, date, region, "s3"), p64))
	boundary := "verifboundary7MA4YWxkTrZu0gW"
	var b bytes.Buffer
	field := func(n, v string) {
		b.WriteString("--" + boundary + "\r\nContent-Disposition: form-data; name=\"" + n + "\"\r\n\r\n" + v + "\r\n")
	}
	field("key", key)
	field("policy", p64)
	field("x-amz-algorithm", "AWS4-HMAC-SHA256")
	field("x-amz-credential", cred)
	field("x-amz-date", amzDate)
	field("x-amz-signature", sig)
	b.WriteString("--" + boundary + "\r\nContent-Disposition: form-data; name=\"file\"; filename=\"upload.bin\"\r\nContent-Type: application/octet-stream\r\n\r\n")
	b.Write(data)
	b.WriteString("\r\n--" + boundary + "--\r\n")
	return "multipart/form-data; boundary=" + boundary, b.Bytes()
}

// S3IdentityJSON is an identities file with one admin identity.
func S3IdentityJSON(accessKey, secret string) string {
	return fmt.Sprintf(`{"identities":[{"name":"verifadmin","credentials":[{"accessKey":"%s","secretKey":"%s"}],"actions":["Admin","Read","Write","List","Tagging"]}]}`, accessKey, secret)
}

// ---------------------------------------------------------------- filer side

// FEntry is one filer entry as seen through the filer gRPC API.
type FEntry struct {
	IsDir    bool     `json:"dir,omitempty"`
	Size     uint64   `json:"size"`
	Mtime    int64    `json:"mtime"`
	Chunks   []string `json:"chunks,omitempty"`
	Md5      string   `json:"md5,omitempty"`
	Extended []string `json:"ext,omitempty"`
	Inline   int      `json:"inline,omitempty"`
}

// Fingerprint is what "unchanged" means for an entry.
func (e FEntry) Fingerprint() string {
	return fmt.Sprintf("d=%v s=%d m=%d c=%s md5=%s x=%s i=%d", e.IsDir, e.Size, e.Mtime, strings.Join(e.Chunks, ","), e.Md5, strings.Join(e.Extended, ","), e.Inline)
}

// FilerClient talks to the filer's gRPC port (http port + 10000).
type FilerClient struct {
	HttpAddr string
	conn     *grpc.ClientConn
	C        filer_pb.SeaweedFilerClient
}

func NewFilerClient(httpAddr string) (*FilerClient, error) {
	host, port, err := net.SplitHostPort(httpAddr)
	if err != nil {
		return nil, err
	}
	var p int
	fmt.Sscan(port, &p)
	conn, err := grpc.Dial(fmt.Sprintf("%s:%d", host, p+10000), grpc.WithInsecure(),
		grpc.WithDefaultCallOptions(grpc.MaxCallRecvMsgSize(64<<20)))
	if err != nil {
		return nil, err
	}
	return &FilerClient{HttpAddr: httpAddr, conn: conn, C: filer_pb.NewSeaweedFilerClient(conn)}, nil
}

func (f *FilerClient) Close() { f.conn.Close() }

// ListDir returns all direct children of dir (paginated through the real ListEntries).
func (f *FilerClient) ListDir(dir string) ([]*filer_pb.Entry, error) {
	var all []*filer_pb.Entry
	start := ""
	for {
		ctx, cancel := context.WithTimeout(context.Background(), 60*time.Second)
		stream, err := f.C.ListEntries(ctx, &filer_pb.ListEntriesRequest{Directory: dir, StartFromFileName: start, Limit: 1024})
		if err != nil {
			cancel()
			return nil, err
		}
		n := 0
		for {
			resp, rerr := stream.Recv()
			if rerr == io.EOF {
				break
			}
			if rerr != nil {
				cancel()
				return nil, rerr
			}
			all = append(all, resp.Entry)
			start = resp.Entry.Name
			n++
		}
		cancel()
		if n < 1024 {
			return all, nil
		}
	}
}

// Dump walks the namespace below root (root itself excluded) and returns
// path -> entry. Directories in skip (full paths) are not entered nor reported.
func (f *FilerClient) Dump(root string, skip map[string]bool) (map[string]FEntry, error) {
	out := make(map[string]FEntry)
	var walk func(dir string) error
	walk = func(dir string) error {
		ents, err := f.ListDir(dir)
		if err != nil {
			return err
		}
		for _, e := range ents {
			p := strings.TrimSuffix(dir, "/") + "/" + e.Name
			if skip[p] {
				continue
			}
			fe := FEntry{IsDir: e.IsDirectory, Inline: len(e.Content)}
			if e.Attributes != nil {
				fe.Mtime = e.Attributes.Mtime
				fe.Size = e.Attributes.FileSize
				fe.Md5 = hex.EncodeToString(e.Attributes.Md5)
			}
			for _, c := range e.Chunks {
				fe.Chunks = append(fe.Chunks, fmt.Sprintf("%s@%d+%d", c.GetFileIdString(), c.Offset, c.Size))
			}
			for k, v := range e.Extended {
				fe.Extended = append(fe.Extended, k+"="+sha256Hex(v)[:8])
			}
			sort.Strings(fe.Extended)
			out[p] = fe
			// entries literally named "." or ".." (creatable through un-cleaned paths) are
			// reported but not entered: they can be nested hundreds deep
			if e.IsDirectory && e.Name != "." && e.Name != ".." {
				if err := walk(p); err != nil {
					return err
				}
			}
		}
		return nil
	}
	return out, walk(root)
}

// DiffDumps lists the paths created, removed or changed between two dumps.
func DiffDumps(before, after map[string]FEntry) (created, removed, changed []string) {
	for p, a := range after {
		b, ok := before[p]
		if !ok {
			created = append(created, p)
		} else if a.Fingerprint() != b.Fingerprint() {
			changed = append(changed, p)
		}
	}
	for p := range before {
		if _, ok := after[p]; !ok {
			removed = append(removed, p)
		}
	}
	sort.Strings(created)
	sort.Strings(removed)
	sort.Strings(changed)
	return
}

// FilerHTTP does a plain request against the filer's HTTP API (path escaped per segment).
func FilerHTTP(h *RawHTTP, method, path, query string, hdr []string, body []byte) (*RawResp, error) {
	t := S3PathEscape(path)
	if query != "" {
		t += "?" + query
	}
	return h.Do(method, t, hdr, body)
}

// DeleteChildren removes everything inside dir (not dir itself) through the filer gRPC API.
func (f *FilerClient) DeleteChildren(dir string) error {
	ents, err := f.ListDir(dir)
	if err != nil {
		return err
	}
	for _, e := range ents {
		ctx, cancel := context.WithTimeout(context.Background(), 60*time.Second)
		resp, err := f.C.DeleteEntry(ctx, &filer_pb.DeleteEntryRequest{Directory: dir, Name: e.Name, IsDeleteData: true, IsRecursive: true, IgnoreRecursiveError: true})
		cancel()
		if err != nil {
			return err
		}
		if resp.Error != "" {
			return fmt.Errorf("delete %s/%s: %s", dir, e.Name, resp.Error)
		}
	}
	return nil
}

// StartS3Cluster starts master, volume, filer and an unauthenticated S3 gateway
// and waits until the cluster assigns and the gateway answers. It returns false
// (after recording the inconclusive reason) when start-up fails.
func StartS3Cluster(c *Cluster, volumeExtra []string, filerExtra []string) bool {
	c.StartMaster()
	c.StartVolume(volumeExtra...)
	if !c.WaitAssign("", 120) {
		return false
	}
	c.StartFiler(filerExtra...)
	if !c.WaitHTTP(c.Filer.Url()+"/", "filer", 90) {
		return false
	}
	c.StartS3("")
	if !c.WaitHTTP(c.S3.Url()+"/", "s3", 90) {
		return false
	}
	return true
}

// StartS3WithIdentities starts a second S3 gateway that uses an identities file
// (needed for streaming-signed PUT and POST-policy uploads); c.S3 keeps pointing
// to the first gateway.
func StartS3WithIdentities(c *Cluster, accessKey, secret string) (*Proc, bool) {
	cfg := c.Root + "/s3-identities.json"
	if err := ioutil.WriteFile(cfg, []byte(S3IdentityJSON(accessKey, secret)), 0644); err != nil {
		c.R.Inconclusive("write identities file: " + err.Error())
		return nil, false
	}
	port := FreePort()
	p := c.Start("s3auth", c.Root+"/s3auth", port, "s3", fmt.Sprintf("-port=%d", port), "-filer="+c.Filer.Addr(), "-config="+cfg)
	if !c.WaitHTTP(p.Url()+"/", "s3 (with identities)", 90) {
		return p, false
	}
	return p, true
}

// DeletePath removes dir/name (recursively, with data) through the filer gRPC API.
func (f *FilerClient) DeletePath(dir, name string) error {
	ctx, cancel := context.WithTimeout(context.Background(), 60*time.Second)
	defer cancel()
	resp, err := f.C.DeleteEntry(ctx, &filer_pb.DeleteEntryRequest{Directory: dir, Name: name, IsDeleteData: true, IsRecursive: true, IgnoreRecursiveError: true})
	if err != nil {
		return err
	}
	if resp.Error != "" {
		return fmt.Errorf("delete %s/%s: %s", dir, name, resp.Error)
	}
	return nil
}

// DebugDump writes the first witness of every signature to $VERIF_DEBUG_DIR
// (triage aid; no effect when the variable is unset).
var debugSeen sync.Map

func DebugDump(prop string, sig Sig, detail interface{}) {
	dir := os.Getenv("VERIF_DEBUG_DIR")
	if dir == "" {
		return
	}
	if _, loaded := debugSeen.LoadOrStore(sig.String(), true); loaded {
		return
	}
	b, _ := json.MarshalIndent(map[string]interface{}{"signature": sig, "detail": detail}, "", " ")
	_ = os.MkdirAll(dir, 0755)
	_ = ioutil.WriteFile(dir+"/"+prop+"_"+strings.NewReplacer(" ", "_", "/", "-", "=", "-").Replace(sig.String())+".json", b, 0644)
}
