// Package lib is the shared machinery of the runtime-monitoring drivers:
// seeded PRNG, case logging (so a crash is attributed to an exact case),
// evidence writer, known-findings matcher, replay files, child-process merging
// and race-log parsing.
package lib

import (
	"crypto/sha1"
	"encoding/hex"
	"encoding/json"
	"flag"
	"fmt"
	"io/ioutil"
	"math/rand"
	"os"
	"os/exec"
	"path/filepath"
	"sort"
	"strconv"
	"strings"
	"sync"
	"time"
)

const VerifRoot = "/verif"

// Exit codes of a driver. 2 is left to the Go runtime (panic / fatal error).
const (
	ExitHeld         = 0
	ExitViolation    = 1
	ExitInconclusive = 3
)

type knownFinding struct {
	Property string            `json:"property"`
	Id       string            `json:"id"`
	Status   string            `json:"status"`
	Match    map[string]string `json:"match"`
	What     string            `json:"what"`
	Commit   string            `json:"commit,omitempty"`
}

// Sig is the structured signature of a refuting observation.
type Sig map[string]string

func (s Sig) String() string {
	keys := make([]string, 0, len(s))
	for k := range s {
		keys = append(keys, k)
	}
	sort.Strings(keys)
	var b strings.Builder
	for i, k := range keys {
		if i > 0 {
			b.WriteByte(' ')
		}
		b.WriteString(k + "=" + s[k])
	}
	return b.String()
}

// childSummary is what a sub-process run hands back to its parent.
type childSummary struct {
	Evaluations  int64                  `json:"evaluations"`
	Nontrivial   []string               `json:"nontrivial"`
	Samples      []interface{}          `json:"samples"`
	Violations   int                    `json:"violations"`
	Known        map[string]int         `json:"known"`
	Notes        map[string]interface{} `json:"notes"`
	Counters     map[string]int64       `json:"counters"`
	Inconclusive []string               `json:"inconclusive"`
	Assumptions  []string               `json:"assumptions"`
}

// Run is one execution of one property's check.
type Run struct {
	Prop   string
	Level  string
	Tier   string
	Seed   int64
	Rng    *rand.Rand
	Replay string // path of a replay file when re-executing one case
	Args   []string

	mu           sync.Mutex
	start        time.Time
	rule         string
	evals        int64
	nontriv      map[string]struct{}
	samples      []interface{}
	maxSamples   int
	notes        map[string]interface{}
	counters     map[string]int64
	assumptions  []string
	violations   int
	violSigs     map[string]int
	known        []knownFinding
	knownHits    map[string]int
	inconclusive []string
	scratch      string
	caseFile     string
	childOut     string
	exhaustive   *bool
}

// Start parses the common flags and environment and returns the run object.
// level is the MANIFEST level category (exploration, fault_enumeration, ...).
func Start(prop, level string) *Run {
	// --tier X / --replay X (also -tier, --tier=X); everything else is left in r.Args
	var tierV, replayV string
	var rest []string
	argv := os.Args[1:]
	for i := 0; i < len(argv); i++ {
		a := strings.TrimLeft(argv[i], "-")
		isFlag := strings.HasPrefix(argv[i], "-")
		switch {
		case isFlag && a == "tier" && i+1 < len(argv):
			tierV = argv[i+1]
			i++
		case isFlag && strings.HasPrefix(a, "tier="):
			tierV = strings.TrimPrefix(a, "tier=")
		case isFlag && a == "replay" && i+1 < len(argv):
			replayV = argv[i+1]
			i++
		case isFlag && strings.HasPrefix(a, "replay="):
			replayV = strings.TrimPrefix(a, "replay=")
		default:
			rest = append(rest, argv[i])
		}
	}
	tier, replay := &tierV, &replayV
	// seaweedfs' glog writes files into /tmp unless told otherwise
	if flag.Lookup("logtostderr") != nil {
		_ = flag.Set("logtostderr", "true")
		_ = flag.Set("alsologtostderr", "false")
	}
	r := &Run{Prop: prop, Level: level, Replay: *replay, Args: rest}
	r.Tier = *tier
	if r.Tier == "" {
		r.Tier = os.Getenv("VERIF_TIER")
	}
	if r.Tier != "thorough" {
		r.Tier = "quick"
	}
	r.Seed = 1
	if s := os.Getenv("VERIF_SEED"); s != "" {
		if v, err := strconv.ParseInt(s, 10, 64); err == nil {
			r.Seed = v
		}
	}
	r.Rng = rand.New(rand.NewSource(r.Seed))
	r.start = time.Now()
	r.nontriv = make(map[string]struct{})
	r.notes = make(map[string]interface{})
	r.counters = make(map[string]int64)
	r.violSigs = make(map[string]int)
	r.knownHits = make(map[string]int)
	r.maxSamples = 5
	r.childOut = os.Getenv("VERIF_CHILD_OUT")
	r.scratch = os.Getenv("VERIF_SCRATCH")
	if r.scratch == "" {
		d, err := ioutil.TempDir(filepath.Join(VerifRoot, ".scratch"), prop+"-")
		if err != nil {
			_ = os.MkdirAll(filepath.Join(VerifRoot, ".scratch"), 0755)
			d, err = ioutil.TempDir(filepath.Join(VerifRoot, ".scratch"), prop+"-")
			if err != nil {
				fmt.Printf("INCONCLUSIVE property=%s reason=scratch:%v\n", prop, err)
				os.Exit(ExitInconclusive)
			}
		}
		r.scratch = d
	}
	r.caseFile = os.Getenv("VERIF_CASE_FILE")
	if r.caseFile == "" {
		r.caseFile = filepath.Join(r.scratch, "current_case.json")
	}
	r.loadKnown()
	return r
}

func (r *Run) loadKnown() {
	b, err := ioutil.ReadFile(filepath.Join(VerifRoot, "known_findings.json"))
	if err != nil {
		return
	}
	var all []knownFinding
	if err := json.Unmarshal(b, &all); err != nil {
		fmt.Printf("INCONCLUSIVE property=%s reason=known_findings.json:%v\n", r.Prop, err)
		os.Exit(ExitInconclusive)
	}
	// per-property fragments (merged into known_findings.json when integrated)
	frags, _ := filepath.Glob(filepath.Join(VerifRoot, "known_findings.d", "*.json"))
	for _, f := range frags {
		fb, err := ioutil.ReadFile(f)
		if err != nil {
			continue
		}
		var part []knownFinding
		if err := json.Unmarshal(fb, &part); err != nil {
			fmt.Printf("INCONCLUSIVE property=%s reason=%s:%v\n", r.Prop, f, err)
			os.Exit(ExitInconclusive)
		}
		all = append(all, part...)
	}
	for _, k := range all {
		if k.Property == r.Prop && k.Status == "known" {
			r.known = append(r.known, k)
		}
	}
}

func (r *Run) Quick() bool    { return r.Tier != "thorough" }
func (r *Run) Thorough() bool { return r.Tier == "thorough" }

// Pick returns q in the quick tier and t in the thorough tier.
func (r *Run) Pick(q, t int) int {
	if r.Thorough() {
		return t
	}
	return q
}

// Scratch returns the run's scratch directory (removed by Finish unless a violation needs it).
func (r *Run) Scratch() string { return r.scratch }

// SubDir creates and returns a fresh directory under the scratch directory.
func (r *Run) SubDir(name string) string {
	d, err := ioutil.TempDir(r.scratch, name+"-")
	if err != nil {
		panic(err)
	}
	return d
}

// SubRng returns an independent PRNG determined by (seed, label).
func (r *Run) SubRng(label string) *rand.Rand {
	h := sha1.Sum([]byte(fmt.Sprintf("%d/%s", r.Seed, label)))
	var v int64
	for i := 0; i < 8; i++ {
		v = v<<8 | int64(h[i])
	}
	return rand.New(rand.NewSource(v))
}

// SetRule states how cases are generated and what makes one distinct and non-trivial.
func (r *Run) SetRule(s string) { r.rule = s }

// SetExhaustive records that a finite space was enumerated completely.
func (r *Run) SetExhaustive(b bool) { r.exhaustive = &b }

// Case logs the case about to be executed to disk, so that a crash of the
// process is attributed to it.
func (r *Run) Case(detail interface{}) {
	b, _ := json.Marshal(map[string]interface{}{"property": r.Prop, "seed": r.Seed, "tier": r.Tier, "case": detail})
	_ = ioutil.WriteFile(r.caseFile, b, 0644)
}

// Eval counts n evaluations (oracle decisions made).
func (r *Run) Eval(n int) {
	r.mu.Lock()
	r.evals += int64(n)
	r.mu.Unlock()
}

// Nontrivial records a distinct non-trivial case by its key (hashed).
func (r *Run) Nontrivial(key string) {
	h := sha1.Sum([]byte(key))
	k := hex.EncodeToString(h[:8])
	r.mu.Lock()
	r.nontriv[k] = struct{}{}
	r.mu.Unlock()
}

// Sample keeps v as one of the written-out cases (first few only).
func (r *Run) Sample(v interface{}) {
	r.mu.Lock()
	if len(r.samples) < r.maxSamples {
		r.samples = append(r.samples, v)
	}
	r.mu.Unlock()
}

// Count adds to a named counter reported in the evidence coverage.
func (r *Run) Count(name string, n int64) {
	r.mu.Lock()
	r.counters[name] += n
	r.mu.Unlock()
}

// Counter returns the current value of a named counter.
func (r *Run) Counter(name string) int64 {
	r.mu.Lock()
	defer r.mu.Unlock()
	return r.counters[name]
}

// Note sets an extra coverage key.
func (r *Run) Note(k string, v interface{}) {
	r.mu.Lock()
	r.notes[k] = v
	r.mu.Unlock()
}

// Assume records an assumption of the check.
func (r *Run) Assume(s string) {
	r.mu.Lock()
	for _, a := range r.assumptions {
		if a == s {
			r.mu.Unlock()
			return
		}
	}
	r.assumptions = append(r.assumptions, s)
	r.mu.Unlock()
}

// Inconclusive records a reason why (part of) the run decided nothing.
func (r *Run) Inconclusive(reason string) {
	r.mu.Lock()
	r.inconclusive = append(r.inconclusive, reason)
	r.mu.Unlock()
}

func matches(k knownFinding, sig Sig) bool {
	if len(k.Match) == 0 {
		return false
	}
	for mk, mv := range k.Match {
		if sig[mk] != mv {
			return false
		}
	}
	return true
}

// Violation reports a refuting observation. sig classifies it (structured, narrow);
// detail is everything needed to re-execute and understand it. It returns true when
// the observation is an unlisted violation (false when it matched a known finding).
func (r *Run) Violation(sig Sig, detail interface{}) bool {
	r.mu.Lock()
	defer r.mu.Unlock()
	for _, k := range r.known {
		if matches(k, sig) {
			if r.knownHits[k.Id] == 0 && r.childOut == "" {
				fmt.Printf("KNOWN-FINDING: property=%s %s [%s]\n", r.Prop, k.What, k.Id)
			}
			r.knownHits[k.Id]++
			return false
		}
	}
	r.violations++
	s := sig.String()
	r.violSigs[s]++
	if r.violSigs[s] > 1 || len(r.violSigs) > 10 {
		return true // already reported this class; keep counting only
	}
	dir := filepath.Join(VerifRoot, ".scratch", "replays")
	_ = os.MkdirAll(dir, 0755)
	h := sha1.Sum([]byte(s + fmt.Sprint(time.Now().UnixNano())))
	path := filepath.Join(dir, fmt.Sprintf("%s-%s-%s.json", r.Prop, r.Tier, hex.EncodeToString(h[:4])))
	b, _ := json.MarshalIndent(map[string]interface{}{
		"property": r.Prop, "seed": r.Seed, "tier": r.Tier, "signature": sig, "detail": detail,
	}, "", " ")
	_ = ioutil.WriteFile(path, b, 0644)
	fmt.Printf("VIOLATION property=%s replay=%s\n", r.Prop, path)
	fmt.Printf("  signature: %s\n", s)
	if d, err := json.Marshal(detail); err == nil {
		if len(d) > 700 {
			d = append(d[:700], []byte("...")...)
		}
		fmt.Printf("  detail: %s\n", d)
	}
	return true
}

// Violations returns the number of unlisted violations so far.
func (r *Run) Violations() int {
	r.mu.Lock()
	defer r.mu.Unlock()
	return r.violations
}

// RunChild runs another driver binary (or this one with other arguments) as a
// child whose counts are merged into this run. A child that dies is a violation
// attributed to the case it had logged last.
func (r *Run) RunChild(label string, bin string, env []string, args ...string) {
	out := filepath.Join(r.scratch, "child-"+label+".json")
	caseFile := filepath.Join(r.scratch, "child-"+label+"-case.json")
	childScratch := filepath.Join(r.scratch, "child-"+label)
	_ = os.MkdirAll(childScratch, 0755)
	_ = os.Remove(out)
	a := append([]string{"--tier", r.Tier}, args...)
	cmd := exec.Command(bin, a...)
	cmd.Env = append(os.Environ(), "VERIF_CHILD_OUT="+out, "VERIF_CASE_FILE="+caseFile,
		"VERIF_SCRATCH="+childScratch, fmt.Sprintf("VERIF_SEED=%d", r.Seed))
	cmd.Env = append(cmd.Env, env...)
	logPath := filepath.Join(r.scratch, "child-"+label+".log")
	lf, _ := os.Create(logPath)
	cmd.Stdout = lf
	cmd.Stderr = lf
	err := cmd.Run()
	lf.Close()
	// pass through VIOLATION / KNOWN-FINDING relevant lines of the child
	if b, e := ioutil.ReadFile(logPath); e == nil {
		for _, line := range strings.Split(string(b), "\n") {
			if strings.HasPrefix(line, "VIOLATION ") || strings.HasPrefix(line, "  signature:") || strings.HasPrefix(line, "  detail:") {
				fmt.Println(line)
			}
		}
	}
	b, rerr := ioutil.ReadFile(out)
	if rerr != nil {
		// the child died before Finish
		var c interface{}
		if cb, e := ioutil.ReadFile(caseFile); e == nil {
			_ = json.Unmarshal(cb, &c)
		}
		tail := ""
		if lb, e := ioutil.ReadFile(logPath); e == nil {
			if len(lb) > 3000 {
				lb = lb[len(lb)-3000:]
			}
			tail = string(lb)
		}
		r.Violation(Sig{"kind": "child-crash", "child": label}, map[string]interface{}{
			"error": fmt.Sprint(err), "last_case": c, "log_tail": tail})
		return
	}
	var cs childSummary
	if e := json.Unmarshal(b, &cs); e != nil {
		r.Inconclusive("child " + label + " summary unreadable: " + e.Error())
		return
	}
	r.mu.Lock()
	r.evals += cs.Evaluations
	for _, k := range cs.Nontrivial {
		r.nontriv[k] = struct{}{}
	}
	for _, s := range cs.Samples {
		if len(r.samples) < r.maxSamples+3 {
			r.samples = append(r.samples, map[string]interface{}{"child": label, "sample": s})
		}
	}
	r.violations += cs.Violations
	for id, n := range cs.Known {
		if r.knownHits[id] == 0 && r.childOut == "" {
			for _, k := range r.known {
				if k.Id == id {
					fmt.Printf("KNOWN-FINDING: property=%s %s [%s]\n", r.Prop, k.What, k.Id)
				}
			}
		}
		r.knownHits[id] += n
	}
	for k, v := range cs.Notes {
		r.notes[label+"."+k] = v
	}
	for k, v := range cs.Counters {
		r.counters[label+"."+k] += v
	}
	for _, s := range cs.Inconclusive {
		r.inconclusive = append(r.inconclusive, label+": "+s)
	}
	r.mu.Unlock()
	for _, s := range cs.Assumptions {
		r.Assume(s)
	}
}

// Finish writes the evidence file (or the child summary) and exits with the verdict.
// minNontrivial is the smallest number of distinct non-trivial cases below which the
// run counts as having observed nothing (inconclusive).
func (r *Run) Finish(minNontrivial int) {
	r.mu.Lock()
	defer r.mu.Unlock()
	if r.childOut != "" {
		cs := childSummary{Evaluations: r.evals, Samples: r.samples, Violations: r.violations,
			Known: r.knownHits, Notes: r.notes, Counters: r.counters, Inconclusive: r.inconclusive, Assumptions: r.assumptions}
		for k := range r.nontriv {
			cs.Nontrivial = append(cs.Nontrivial, k)
		}
		b, _ := json.Marshal(cs)
		_ = ioutil.WriteFile(r.childOut, b, 0644)
		os.Exit(0)
	}
	if r.Replay == "" && len(r.nontriv) < minNontrivial && r.violations == 0 {
		r.inconclusive = append(r.inconclusive, fmt.Sprintf("observed only %d distinct non-trivial cases (< %d)", len(r.nontriv), minNontrivial))
	}
	cov := map[string]interface{}{
		"evaluations":         r.evals,
		"distinct_nontrivial": len(r.nontriv),
		"rule":                r.rule,
		"samples":             r.samples,
	}
	if r.exhaustive != nil {
		cov["exhaustive"] = *r.exhaustive
	}
	for k, v := range r.notes {
		// the schema types some coverage keys; a free-text note must not take their place
		switch k {
		case "exhaustive":
			if _, ok := v.(bool); !ok {
				k = "exhaustive_note"
			}
		case "evaluations", "distinct_nontrivial", "rule", "samples", "states", "transitions", "obligations", "discharged", "programs",
			"traces_validated_against_impl", "disagreements_checked", "checker_cmd", "trusted_base", "explanation":
			k = k + "_note"
		}
		cov[k] = v
	}
	if len(r.counters) > 0 {
		cov["counters"] = r.counters
	}
	if len(r.knownHits) > 0 {
		cov["known_findings_observed"] = r.knownHits
	}
	if len(r.violSigs) > 0 {
		cov["violation_signatures"] = r.violSigs
	}
	if len(r.inconclusive) > 0 {
		cov["inconclusive"] = r.inconclusive
	}
	if len(r.samples) == 0 {
		cov["samples"] = []interface{}{"(no case executed)"}
	}
	ev := map[string]interface{}{
		"property_id": r.Prop,
		"tier":        r.Tier,
		"seed":        r.Seed,
		"level":       r.Level,
		"coverage":    cov,
		"assumptions": r.assumptions,
		"wall_s":      time.Since(r.start).Seconds(),
		"violations":  r.violations,
	}
	if r.Replay == "" {
		b, _ := json.MarshalIndent(ev, "", " ")
		evdir := os.Getenv("VERIF_EVIDENCE_DIR")
		if evdir == "" {
			evdir = filepath.Join(VerifRoot, "evidence")
		}
		_ = os.MkdirAll(evdir, 0755)
		_ = ioutil.WriteFile(filepath.Join(evdir, r.Prop+".json"), b, 0644)
	}
	code := ExitHeld
	switch {
	case r.violations > 0:
		code = ExitViolation
	case len(r.inconclusive) > 0:
		for _, s := range r.inconclusive {
			fmt.Printf("INCONCLUSIVE property=%s reason=%s\n", r.Prop, s)
		}
		code = ExitInconclusive
	}
	fmt.Printf("RESULT property=%s tier=%s seed=%d evaluations=%d distinct_nontrivial=%d violations=%d known=%d wall_s=%.1f\n",
		r.Prop, r.Tier, r.Seed, r.evals, len(r.nontriv), r.violations, len(r.knownHits), time.Since(r.start).Seconds())
	if code == ExitHeld && os.Getenv("VERIF_SCRATCH") == "" {
		_ = os.RemoveAll(r.scratch)
	}
	os.Exit(code)
}

// LoadReplay reads the replay file given with --replay into v (the "detail" member).
func (r *Run) LoadReplay(v interface{}) error {
	b, err := ioutil.ReadFile(r.Replay)
	if err != nil {
		return err
	}
	var w struct {
		Detail json.RawMessage `json:"detail"`
	}
	if err := json.Unmarshal(b, &w); err != nil {
		return err
	}
	return json.Unmarshal(w.Detail, v)
}

// Must aborts the run as inconclusive when a harness-side step (not the code
// under test) fails.
func (r *Run) Must(err error, what string) {
	if err != nil {
		fmt.Printf("INCONCLUSIVE property=%s reason=%s: %v\n", r.Prop, what, err)
		os.Exit(ExitInconclusive)
	}
}
