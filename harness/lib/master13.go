package lib

// Substrate shared by the C13 (key / volume id uniqueness) and C14 (vacuum rounds)
// drivers: a fake etcd v2 keys endpoint, a stub raft group, an in-process
// heartbeat stream, harness-side gRPC VolumeServer stub endpoints, and a helper
// that builds a real MasterServer on top of them. Everything here is an observer
// or a fault injector at a boundary of the real code; nothing decides a verdict.
// All identifiers carry the prefix M13 (another file of this package provides a
// similar substrate for C11/C12 and must not collide with this one).

import (
	"context"
	"encoding/json"
	"fmt"
	"io"
	"math/rand"
	"net"
	"net/http"
	"os"
	"strconv"
	"sync"
	"sync/atomic"
	"time"

	"github.com/chrislusf/raft"
	"github.com/gorilla/mux"
	"google.golang.org/grpc"

	"github.com/chrislusf/seaweedfs/weed/pb"
	"github.com/chrislusf/seaweedfs/weed/pb/master_pb"
	"github.com/chrislusf/seaweedfs/weed/pb/volume_server_pb"
	weed_server "github.com/chrislusf/seaweedfs/weed/server"
	"github.com/chrislusf/seaweedfs/weed/topology"
)

// ---------------------------------------------------------------------------
// fake etcd v2 keys API (GET, PUT with prevValue / prevExist), linearizable

type M13EtcdStats struct {
	Gets            int64 `json:"gets"`
	Puts            int64 `json:"puts"`
	CasOk           int64 `json:"cas_ok"`
	CasConflicts    int64 `json:"cas_conflicts"`
	Creates         int64 `json:"creates"`
	CreateConflicts int64 `json:"create_conflicts"`
	NotFound        int64 `json:"not_found"`
	Other           int64 `json:"other"`
}

type m13EtcdNode struct {
	value    string
	created  uint64
	modified uint64
}

// M13FakeEtcd serves /v2/keys/... with compare-and-swap semantics from one
// mutex-protected map: every request is atomic, so the endpoint is linearizable.
type M13FakeEtcd struct {
	mu    sync.Mutex
	nodes map[string]*m13EtcdNode
	index uint64
	stats M13EtcdStats
	// Stall, when set, is called (outside the lock) before a request is served;
	// drivers use it to widen the window between a client's GET and its PUT.
	Stall func(method string)
	ln    net.Listener
	srv   *http.Server
	last  []string
}

func M13NewFakeEtcd() (*M13FakeEtcd, error) {
	ln, err := net.Listen("tcp", "127.0.0.1:0")
	if err != nil {
		return nil, err
	}
	e := &M13FakeEtcd{nodes: make(map[string]*m13EtcdNode), index: 1, ln: ln}
	e.srv = &http.Server{Handler: http.HandlerFunc(e.serve)}
	go func() { _ = e.srv.Serve(ln) }()
	return e, nil
}

func (e *M13FakeEtcd) URL() string { return "http://" + e.ln.Addr().String() }
func (e *M13FakeEtcd) Close()      { _ = e.srv.Close() }

func (e *M13FakeEtcd) Stats() M13EtcdStats {
	e.mu.Lock()
	defer e.mu.Unlock()
	return e.stats
}

// Value returns the current value of a key ("" when absent).
func (e *M13FakeEtcd) Value(key string) string {
	e.mu.Lock()
	defer e.mu.Unlock()
	if n := e.nodes[key]; n != nil {
		return n.value
	}
	return ""
}

// LastRequests returns the most recent requests served (for replay files).
func (e *M13FakeEtcd) LastRequests() []string {
	e.mu.Lock()
	defer e.mu.Unlock()
	return append([]string{}, e.last...)
}

func (e *M13FakeEtcd) logReq(s string) {
	e.last = append(e.last, s)
	if len(e.last) > 40 {
		e.last = e.last[len(e.last)-40:]
	}
}

func (e *M13FakeEtcd) serve(w http.ResponseWriter, r *http.Request) {
	const prefix = "/v2/keys"
	if len(r.URL.Path) < len(prefix) || r.URL.Path[:len(prefix)] != prefix {
		e.mu.Lock()
		e.stats.Other++
		e.mu.Unlock()
		http.NotFound(w, r)
		return
	}
	key := r.URL.Path[len(prefix):]
	_ = r.ParseForm()
	if e.Stall != nil {
		e.Stall(r.Method)
	}
	e.mu.Lock()
	defer e.mu.Unlock()
	w.Header().Set("Content-Type", "application/json")
	w.Header().Set("X-Etcd-Cluster-ID", "verif")
	fail := func(status, code int, msg, cause string) {
		w.Header().Set("X-Etcd-Index", strconv.FormatUint(e.index, 10))
		w.WriteHeader(status)
		b, _ := json.Marshal(map[string]interface{}{"errorCode": code, "message": msg, "cause": cause, "index": e.index})
		_, _ = w.Write(b)
	}
	nodeJSON := func(n *m13EtcdNode) map[string]interface{} {
		return map[string]interface{}{"key": key, "value": n.value, "modifiedIndex": n.modified, "createdIndex": n.created}
	}
	switch r.Method {
	case "GET":
		e.stats.Gets++
		n := e.nodes[key]
		if n == nil {
			e.stats.NotFound++
			e.logReq("GET " + key + " -> 404")
			fail(404, 100, "Key not found", key)
			return
		}
		e.logReq("GET " + key + " -> " + n.value)
		w.Header().Set("X-Etcd-Index", strconv.FormatUint(e.index, 10))
		b, _ := json.Marshal(map[string]interface{}{"action": "get", "node": nodeJSON(n)})
		_, _ = w.Write(b)
	case "PUT":
		e.stats.Puts++
		value := r.PostForm.Get("value")
		q := r.URL.Query()
		prevValue, hasPrevValue := q.Get("prevValue"), q.Get("prevValue") != ""
		prevExist := q.Get("prevExist")
		n := e.nodes[key]
		if prevExist == "false" {
			if n != nil {
				e.stats.CreateConflicts++
				e.logReq("PUT " + key + " create " + value + " -> 412 exists")
				fail(412, 105, "Key already exists", key)
				return
			}
			e.stats.Creates++
		}
		if prevExist == "true" && n == nil {
			e.stats.NotFound++
			fail(404, 100, "Key not found", key)
			return
		}
		if hasPrevValue {
			if n == nil {
				e.stats.NotFound++
				fail(404, 100, "Key not found", key)
				return
			}
			if n.value != prevValue {
				e.stats.CasConflicts++
				e.logReq("PUT " + key + " cas " + prevValue + "->" + value + " -> 412 is " + n.value)
				fail(412, 101, "Compare failed", fmt.Sprintf("[%s != %s]", prevValue, n.value))
				return
			}
			e.stats.CasOk++
		}
		e.index++
		action := "set"
		var prev map[string]interface{}
		if n == nil {
			n = &m13EtcdNode{created: e.index}
			e.nodes[key] = n
			action = "create"
			w.Header().Set("X-Etcd-Index", strconv.FormatUint(e.index, 10))
			n.value, n.modified = value, e.index
			e.logReq("PUT " + key + " create " + value + " -> 201")
			w.WriteHeader(201)
		} else {
			prev = nodeJSON(n)
			if hasPrevValue {
				action = "compareAndSwap"
			}
			e.logReq("PUT " + key + " " + action + " " + n.value + "->" + value + " -> 200")
			n.value, n.modified = value, e.index
			w.Header().Set("X-Etcd-Index", strconv.FormatUint(e.index, 10))
		}
		resp := map[string]interface{}{"action": action, "node": nodeJSON(n)}
		if prev != nil {
			resp["prevNode"] = prev
		}
		b, _ := json.Marshal(resp)
		_, _ = w.Write(b)
	default:
		e.stats.Other++
		fail(405, 0, "unsupported by the fake", r.Method)
	}
}

// ---------------------------------------------------------------------------
// stub raft: a group with one leader token; committed commands are applied on
// every member (what a real raft log guarantees for a new leader's state).

type M13RaftGroup struct {
	cmdMu   sync.Mutex // serialises commands (never held while answering Leader()/State())
	mu      sync.Mutex
	leader  string
	members []*M13Raft
	moves   int64
	applied int64
}

func M13NewRaftGroup() *M13RaftGroup { return &M13RaftGroup{} }

// M13Raft is one member. The embedded nil interface panics for every method the
// real code is not expected to call on it.
type M13Raft struct {
	raft.Server
	group *M13RaftGroup
	name  string
	ctx   interface{}
}

// Join adds a member; the first member becomes leader.
func (g *M13RaftGroup) Join(name string, ctx interface{}) *M13Raft {
	g.mu.Lock()
	defer g.mu.Unlock()
	m := &M13Raft{group: g, name: name, ctx: ctx}
	g.members = append(g.members, m)
	if g.leader == "" {
		g.leader = name
	}
	return m
}

// SetLeader moves the leader token (atomically; there is never an empty leader).
func (g *M13RaftGroup) SetLeader(name string) {
	g.mu.Lock()
	if g.leader != name {
		g.moves++
	}
	g.leader = name
	g.mu.Unlock()
}

func (g *M13RaftGroup) LeaderName() string {
	g.mu.Lock()
	defer g.mu.Unlock()
	return g.leader
}

func (g *M13RaftGroup) Moves() int64 {
	g.mu.Lock()
	defer g.mu.Unlock()
	return g.moves
}

func (g *M13RaftGroup) Applied() int64 { return atomic.LoadInt64(&g.applied) }

func (m *M13Raft) Name() string         { return m.name }
func (m *M13Raft) Context() interface{} { return m.ctx }
func (m *M13Raft) Leader() string       { return m.group.LeaderName() }
func (m *M13Raft) State() string {
	if m.group.LeaderName() == m.name {
		return raft.Leader
	}
	return raft.Follower
}
func (m *M13Raft) GetState() string                            { return m.State() }
func (m *M13Raft) AddEventListener(string, raft.EventListener) {}
func (m *M13Raft) Peers() map[string]*raft.Peer                { return map[string]*raft.Peer{} }
func (m *M13Raft) Running() bool                               { return true }
func (m *M13Raft) MemberCount() int                            { return len(m.group.members) }

type m13DeprecatedApply interface {
	Apply(raft.Server) (interface{}, error)
}

// Do commits a command: refused on a non-leader; otherwise applied, under the
// group lock (raft serialises commands), on every member.
func (m *M13Raft) Do(command raft.Command) (interface{}, error) {
	g := m.group
	g.cmdMu.Lock()
	defer g.cmdMu.Unlock()
	g.mu.Lock()
	isLeader := g.leader == m.name
	members := append([]*M13Raft{}, g.members...)
	g.mu.Unlock()
	if !isLeader {
		return nil, raft.NotLeaderError
	}
	var ret interface{}
	var err error
	for _, mem := range members {
		switch c := command.(type) {
		case raft.CommandApply:
			_ = c
			return nil, fmt.Errorf("stub raft: CommandApply commands are not supported")
		case m13DeprecatedApply:
			r, e := c.Apply(mem)
			if mem == m {
				ret, err = r, e
			}
		default:
			return nil, fmt.Errorf("stub raft: command %T has no Apply", command)
		}
	}
	atomic.AddInt64(&g.applied, 1)
	return ret, err
}

// ---------------------------------------------------------------------------
// in-process heartbeat stream (what a volume server's SendHeartbeat client is)

type M13HBStream struct {
	grpc.ServerStream
	ctx    context.Context
	cancel context.CancelFunc
	in     chan *master_pb.Heartbeat
	out    chan *master_pb.HeartbeatResponse
	done   chan struct{} // closed when the handler returned
	err    error
	closed int32
}

// M13OpenHeartbeat runs the real SendHeartbeat handler of ms on a new stream.
func M13OpenHeartbeat(ms *weed_server.MasterServer) *M13HBStream {
	ctx, cancel := context.WithCancel(context.Background())
	s := &M13HBStream{ctx: ctx, cancel: cancel, in: make(chan *master_pb.Heartbeat),
		out: make(chan *master_pb.HeartbeatResponse, 16), done: make(chan struct{})}
	go func() {
		s.err = ms.SendHeartbeat(s)
		close(s.done)
	}()
	return s
}

func (s *M13HBStream) Context() context.Context { return s.ctx }
func (s *M13HBStream) Send(r *master_pb.HeartbeatResponse) error {
	select {
	case s.out <- r:
		return nil
	case <-s.ctx.Done():
		return io.ErrClosedPipe
	}
}
func (s *M13HBStream) Recv() (*master_pb.Heartbeat, error) {
	select {
	case h, ok := <-s.in:
		if !ok {
			return nil, io.EOF
		}
		return h, nil
	case <-s.ctx.Done():
		return nil, io.EOF
	}
}

// Beat sends one heartbeat and waits until the handler has processed it (its
// reply naming the leader is the step barrier). false: the handler ended.
func (s *M13HBStream) Beat(h *master_pb.Heartbeat) (leader string, ok bool) {
	select {
	case s.in <- h:
	case <-s.done:
		return "", false
	}
	for {
		select {
		case r := <-s.out:
			if r.Leader != "" {
				return r.Leader, true
			}
		case <-s.done:
			return "", false
		}
	}
}

// Close ends the stream and waits for the handler to return (it unregisters the
// data node before returning: the disconnect barrier).
func (s *M13HBStream) Close() {
	if atomic.CompareAndSwapInt32(&s.closed, 0, 1) {
		s.cancel()
	}
	<-s.done
}

// ---------------------------------------------------------------------------
// harness-side gRPC VolumeServer endpoint with pluggable handlers

type M13VolumeStub struct {
	volume_server_pb.UnimplementedVolumeServerServer
	Port int // the "http" port the master knows; the endpoint listens on Port+10000
	ln   net.Listener
	srv  *grpc.Server

	mu         sync.Mutex
	OnAllocate func(*volume_server_pb.AllocateVolumeRequest) error
	OnCheck    func(*volume_server_pb.VacuumVolumeCheckRequest) (float64, error)
	OnCompact  func(*volume_server_pb.VacuumVolumeCompactRequest) error
	OnCommit   func(*volume_server_pb.VacuumVolumeCommitRequest) (bool, error)
	OnCleanup  func(*volume_server_pb.VacuumVolumeCleanupRequest) error
}

var m13PortRng = rand.New(rand.NewSource(time.Now().UnixNano() ^ int64(os.Getpid())<<16))
var m13PortMu sync.Mutex
var m13UsedPorts = map[int]bool{}

// M13StartVolumeStub binds a never-before-used port pair (the repo's gRPC client
// keeps a process-wide connection cache keyed by address) and serves the stub.
func M13StartVolumeStub() (*M13VolumeStub, error) {
	m13PortMu.Lock()
	defer m13PortMu.Unlock()
	for i := 0; i < 5000; i++ {
		p := 20000 + m13PortRng.Intn(25000)
		if m13UsedPorts[p] {
			continue
		}
		ln, err := net.Listen("tcp", fmt.Sprintf("127.0.0.1:%d", p+10000))
		if err != nil {
			continue
		}
		m13UsedPorts[p] = true
		s := &M13VolumeStub{Port: p, ln: ln, srv: pb.NewGrpcServer()} // the volume server's own keepalive settings: a long RPC survives
		volume_server_pb.RegisterVolumeServerServer(s.srv, s)
		go func() { _ = s.srv.Serve(ln) }()
		return s, nil
	}
	return nil, fmt.Errorf("no free port for a volume stub")
}

func (s *M13VolumeStub) Url() string { return fmt.Sprintf("127.0.0.1:%d", s.Port) }
func (s *M13VolumeStub) Stop()       { s.srv.Stop() }

// Set replaces the handlers atomically (nil handler = codes.Unimplemented-like error).
func (s *M13VolumeStub) Set(f func(s *M13VolumeStub)) {
	s.mu.Lock()
	f(s)
	s.mu.Unlock()
}

func (s *M13VolumeStub) AllocateVolume(ctx context.Context, req *volume_server_pb.AllocateVolumeRequest) (*volume_server_pb.AllocateVolumeResponse, error) {
	s.mu.Lock()
	f := s.OnAllocate
	s.mu.Unlock()
	if f == nil {
		return nil, fmt.Errorf("stub: AllocateVolume not scripted")
	}
	if err := f(req); err != nil {
		return nil, err
	}
	return &volume_server_pb.AllocateVolumeResponse{}, nil
}

func (s *M13VolumeStub) VacuumVolumeCheck(ctx context.Context, req *volume_server_pb.VacuumVolumeCheckRequest) (*volume_server_pb.VacuumVolumeCheckResponse, error) {
	s.mu.Lock()
	f := s.OnCheck
	s.mu.Unlock()
	if f == nil {
		return nil, fmt.Errorf("stub: VacuumVolumeCheck not scripted")
	}
	ratio, err := f(req)
	if err != nil {
		return nil, err
	}
	return &volume_server_pb.VacuumVolumeCheckResponse{GarbageRatio: ratio}, nil
}

func (s *M13VolumeStub) VacuumVolumeCompact(ctx context.Context, req *volume_server_pb.VacuumVolumeCompactRequest) (*volume_server_pb.VacuumVolumeCompactResponse, error) {
	s.mu.Lock()
	f := s.OnCompact
	s.mu.Unlock()
	if f == nil {
		return nil, fmt.Errorf("stub: VacuumVolumeCompact not scripted")
	}
	if err := f(req); err != nil {
		return nil, err
	}
	return &volume_server_pb.VacuumVolumeCompactResponse{}, nil
}

func (s *M13VolumeStub) VacuumVolumeCommit(ctx context.Context, req *volume_server_pb.VacuumVolumeCommitRequest) (*volume_server_pb.VacuumVolumeCommitResponse, error) {
	s.mu.Lock()
	f := s.OnCommit
	s.mu.Unlock()
	if f == nil {
		return nil, fmt.Errorf("stub: VacuumVolumeCommit not scripted")
	}
	ro, err := f(req)
	if err != nil {
		return nil, err
	}
	return &volume_server_pb.VacuumVolumeCommitResponse{IsReadOnly: ro}, nil
}

func (s *M13VolumeStub) VacuumVolumeCleanup(ctx context.Context, req *volume_server_pb.VacuumVolumeCleanupRequest) (*volume_server_pb.VacuumVolumeCleanupResponse, error) {
	s.mu.Lock()
	f := s.OnCleanup
	s.mu.Unlock()
	if f == nil {
		return nil, fmt.Errorf("stub: VacuumVolumeCleanup not scripted")
	}
	if err := f(req); err != nil {
		return nil, err
	}
	return &volume_server_pb.VacuumVolumeCleanupResponse{}, nil
}

// ---------------------------------------------------------------------------
// a real MasterServer on the stub raft

type M13Master struct {
	Name string
	MS   *weed_server.MasterServer
	Raft *M13Raft
}

// M13NewMaster builds a real MasterServer with the public constructor and joins
// it to the stub raft group (the member's context is the master's Topology, as
// the real RaftServer sets it up).
func M13NewMaster(g *M13RaftGroup, name string, port int, metaDir string) *M13Master {
	opt := &weed_server.MasterOption{
		Host:                    "127.0.0.1",
		Port:                    port,
		MetaFolder:              metaDir,
		VolumeSizeLimitMB:       1000,
		DefaultReplicaPlacement: "000",
		GarbageThreshold:        0.3,
		DisableHttp:             true,
	}
	ms := weed_server.NewMasterServer(mux.NewRouter(), opt, nil)
	m := &M13Master{Name: name, MS: ms}
	m.Raft = g.Join(name, ms.Topo)
	ms.Topo.RaftServer = m.Raft
	return m
}

// M13NewTopology builds a bare Topology joined to a stub raft group (C14 and the
// volume-growth part of C13 need no MasterServer).
func M13NewTopology(g *M13RaftGroup, name string, seq interface {
	NextFileId(count uint64) uint64
	SetMax(uint64)
	Peek() uint64
}, volumeSizeLimit uint64) *topology.Topology {
	t := topology.NewTopology("topo", seq, volumeSizeLimit, 5, false)
	t.RaftServer = g.Join(name, t)
	return t
}
