package lib

import "strings"

// RaceAccess describes the two conflicting accesses of a race report by the
// innermost frame that is not runtime/sync machinery ("the accessing function").
type RaceAccess struct {
	Fn    string // full function name of the accessing frame
	Write bool
	Stack []string
}

func accessingFrame(st []string) string {
	for _, fn := range st {
		if strings.HasPrefix(fn, "runtime.") || strings.HasPrefix(fn, "sync.") || strings.HasPrefix(fn, "sync/atomic.") ||
			strings.HasPrefix(fn, "internal/") || strings.HasPrefix(fn, "bytes.") || strings.HasPrefix(fn, "time.") {
			continue
		}
		return fn
	}
	if len(st) > 0 {
		return st[0]
	}
	return ""
}

// Accesses returns the two accesses of the report (nil if it cannot be parsed).
func (rr RaceReport) Accesses() []RaceAccess {
	if len(rr.Stacks) < 2 {
		return nil
	}
	var kinds []bool
	for _, line := range strings.Split(rr.Text, "\n") {
		l := strings.ToLower(line)
		switch {
		case strings.HasPrefix(l, "write at "), strings.HasPrefix(l, "previous write at "),
			strings.HasPrefix(l, "atomic write at "), strings.HasPrefix(l, "previous atomic write at "):
			kinds = append(kinds, true)
		case strings.HasPrefix(l, "read at "), strings.HasPrefix(l, "previous read at "),
			strings.HasPrefix(l, "atomic read at "), strings.HasPrefix(l, "previous atomic read at "):
			kinds = append(kinds, false)
		}
	}
	out := make([]RaceAccess, 0, 2)
	for i := 0; i < 2; i++ {
		a := RaceAccess{Fn: accessingFrame(rr.Stacks[i]), Stack: rr.Stacks[i]}
		if i < len(kinds) {
			a.Write = kinds[i]
		}
		out = append(out, a)
	}
	return out
}

// AccessesIn reports whether both accessing functions belong to the component
// (substring of the function's import path, e.g. "weed/wdclient.").
func (rr RaceReport) AccessesIn(component string) bool {
	acc := rr.Accesses()
	if len(acc) < 2 {
		return false
	}
	return strings.Contains(acc[0].Fn, component) && strings.Contains(acc[1].Fn, component)
}

// ShortFn strips the import path and pointer-receiver decoration:
// github.com/x/weed/wdclient.(*vidMap).deleteLocation -> vidMap.deleteLocation
func ShortFn(fn string) string {
	if i := strings.LastIndex(fn, "/"); i >= 0 {
		fn = fn[i+1:]
	}
	if i := strings.Index(fn, "."); i >= 0 {
		fn = fn[i+1:]
	}
	return strings.NewReplacer("(*", "", ")", "").Replace(fn)
}
