package lib

// Helpers shared by the volume-file level drivers (C02, C03, C09): a Store whose
// helper goroutines can be stopped (the race detector allows only 8128 live
// goroutines, so drivers that open volumes thousands of times must not leak the
// four channel drainers of OpenStore), index-file walking and in-place rewriting
// of the timestamps stored in a .dat file.

import (
	"encoding/binary"
	"fmt"
	"io"
	"os"
	"time"

	"github.com/chrislusf/seaweedfs/weed/storage"
	"github.com/chrislusf/seaweedfs/weed/storage/idx"
	"github.com/chrislusf/seaweedfs/weed/storage/needle"
	"github.com/chrislusf/seaweedfs/weed/storage/types"
	"github.com/chrislusf/seaweedfs/weed/util"
)

// OpenStoreStoppable is OpenStore with drainers that end when stop() is called.
// stop does not close the store.
func OpenStoreStoppable(dir string, kind storage.NeedleMapKind) (s *storage.Store, stop func()) {
	s = storage.NewStore(nil, 0, "127.0.0.1", "127.0.0.1:0", []string{dir}, []int{100},
		[]util.MinFreeSpace{{Type: util.AsPercent, Percent: 0, Raw: "0"}}, "", kind, []types.DiskType{types.HardDriveType})
	done := make(chan struct{})
	go func() {
		for {
			select {
			case <-s.NewVolumesChan:
			case <-s.DeletedVolumesChan:
			case <-s.NewEcShardsChan:
			case <-s.DeletedEcShardsChan:
			case <-done:
				return
			}
		}
	}()
	return s, func() { close(done) }
}

// IdxEntry is one entry of a volume index file, in file order.
type IdxEntry struct {
	Key    uint64
	Offset int64 // actual byte offset in the .dat file (0 for a tombstone entry)
	Size   int32 // stored size field (negative / -1 for tombstones)
}

// ReadIdxFile returns the entries of an .idx file in file order.
func ReadIdxFile(path string) ([]IdxEntry, error) {
	f, err := os.Open(path)
	if err != nil {
		return nil, err
	}
	defer f.Close()
	var out []IdxEntry
	err = idx.WalkIndexFile(f, func(key types.NeedleId, offset types.Offset, size types.Size) error {
		out = append(out, IdxEntry{Key: uint64(key), Offset: offset.ToActualOffset(), Size: int32(size)})
		return nil
	})
	if err == io.EOF {
		err = nil
	}
	return out, err
}

// SetAppendAtNs overwrites the append timestamp stored in the version-3 record
// that starts at recordOffset and has the given size field (the 8 bytes after
// the CRC; they are not covered by the CRC).
func SetAppendAtNs(datPath string, recordOffset int64, size int32, appendAtNs uint64) error {
	f, err := os.OpenFile(datPath, os.O_RDWR, 0644)
	if err != nil {
		return err
	}
	defer f.Close()
	// sanity: the header at recordOffset must carry this size
	hdr := make([]byte, types.NeedleHeaderSize)
	if _, err := f.ReadAt(hdr, recordOffset); err != nil {
		return err
	}
	if got := int32(binary.BigEndian.Uint32(hdr[types.CookieSize+types.NeedleIdSize:])); got != size {
		return fmt.Errorf("record at %d has size %d, expected %d", recordOffset, got, size)
	}
	var b [8]byte
	binary.BigEndian.PutUint64(b[:], appendAtNs)
	_, err = f.WriteAt(b[:], recordOffset+int64(types.NeedleHeaderSize)+int64(size)+int64(needle.NeedleChecksumSize))
	return err
}

// SetFileMtime sets access and modification time of a file.
func SetFileMtime(path string, t time.Time) error { return os.Chtimes(path, t, t) }
