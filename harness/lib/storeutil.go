package lib

import (
	"encoding/json"

	"github.com/chrislusf/seaweedfs/weed/storage"
	"github.com/chrislusf/seaweedfs/weed/storage/needle"
	"github.com/chrislusf/seaweedfs/weed/storage/types"
	"github.com/chrislusf/seaweedfs/weed/util"
)

// OpenStore opens (or reopens) a real storage.Store over one directory. The four
// notification channels are drained by goroutines (nobody heartbeats here).
func OpenStore(dir string, kind storage.NeedleMapKind) *storage.Store {
	s := storage.NewStore(nil, 0, "127.0.0.1", "127.0.0.1:0", []string{dir}, []int{100},
		[]util.MinFreeSpace{{Type: util.AsPercent, Percent: 0, Raw: "0"}}, "", kind, []types.DiskType{types.HardDriveType})
	go func() {
		for range s.NewVolumesChan {
		}
	}()
	go func() {
		for range s.DeletedVolumesChan {
		}
	}()
	go func() {
		for range s.NewEcShardsChan {
		}
	}()
	go func() {
		for range s.DeletedEcShardsChan {
		}
	}()
	return s
}

// BlobSpec is the client-visible content of a blob as an upload request carries it.
type BlobSpec struct {
	Key          uint64            `json:"key"`
	Cookie       uint32            `json:"cookie"`
	Data         []byte            `json:"data"`
	Name         string            `json:"name"`
	Mime         string            `json:"mime"`
	Pairs        map[string]string `json:"pairs,omitempty"`
	LastModified uint64            `json:"last_modified"` // 0 = server sets "now"
	Ttl          string            `json:"ttl,omitempty"`
	Compressed   bool              `json:"compressed"`
}

// MakeNeedle builds a needle the way needle.CreateNeedleFromRequest does from a
// parsed upload (flags consistent with fields, checksum set). nowSec is used when
// the client sent no timestamp.
func MakeNeedle(b BlobSpec, nowSec uint64) *needle.Needle {
	n := new(needle.Needle)
	n.Id = types.NeedleId(b.Key)
	n.Cookie = types.Cookie(b.Cookie)
	n.Data = append([]byte{}, b.Data...)
	n.LastModified = b.LastModified
	if b.Ttl != "" {
		n.Ttl, _ = needle.ReadTTL(b.Ttl)
	} else {
		n.Ttl = needle.EMPTY_TTL
	}
	if len(b.Name) < 256 {
		n.Name = []byte(b.Name)
		n.SetHasName()
	}
	if len(b.Mime) < 256 {
		n.Mime = []byte(b.Mime)
		n.SetHasMime()
	}
	if len(b.Pairs) != 0 {
		pairs, _ := json.Marshal(b.Pairs)
		if len(pairs) < 65536 {
			n.Pairs = pairs
			n.PairsSize = uint16(len(pairs))
			n.SetHasPairs()
		}
	}
	if b.Compressed {
		n.SetIsCompressed()
	}
	if n.LastModified == 0 {
		n.LastModified = nowSec
	}
	n.SetHasLastModifiedDate()
	if n.Ttl != needle.EMPTY_TTL {
		n.SetHasTtl()
	}
	n.Checksum = needle.NewCRC(n.Data)
	return n
}
