package lib

// Heartbeat-history generator and executor for the in-process master substrate
// (masterutil.go). Shared by the C11 and C12 drivers.
//
// The generator keeps a *truth* (what each modelled volume server holds) and, per
// server, a queue of incremental messages exactly as a real volume server's
// NewVolumesChan/DeletedVolumesChan/NewEcShardsChan/DeletedEcShardsChan would hold
// them (the queue survives master reconnects, as the Store's channels do). Full
// heartbeats report the truth at the moment they are sent; incremental messages
// are delivered in order, reordered, duplicated or after the full heartbeat that
// already reflected them (stale). The output is a list of message-level steps,
// which is all that is needed to re-execute a history.

import (
	"fmt"
	"math/rand"
	"sort"
	"sync"

	"github.com/chrislusf/seaweedfs/weed/pb/master_pb"
)

type HStep struct {
	Kind string               `json:"kind"` // connect | beat | close | tick
	Srv  int                  `json:"srv"`
	HB   *master_pb.Heartbeat `json:"hb,omitempty"`
	Tag  string               `json:"tag,omitempty"` // generator's label (coverage only)
}

type GenParams struct {
	Steps      int    // message-level steps to produce (after the start-up phase)
	Limit      uint64 // volume size limit in bytes
	Clean      bool   // never emit the inputs that trigger the listed C12 counter defects (used by concurrent rounds)
	MinServers int
	MaxServers int
}

type tserver struct {
	idx       int
	ip        string
	port      int
	dc, rack  string
	max       map[string]uint32
	vols      map[uint32]*RegVol
	ec        map[uint32]*RegEc
	ecDisk    map[uint32]string // an EC volume keeps its disk type on a server for the whole history
	queue     []*master_pb.Heartbeat
	sent      []*master_pb.Heartbeat
	connected bool
}

type catEntry struct {
	vid        uint32
	collection string
	rp         uint32
	ttl        uint32
	disk       string
}

type Gen struct {
	rng     *rand.Rand
	p       GenParams
	servers []*tserver
	cat     map[uint32]*catEntry
	nextVid uint32
	reg     *RegModel // the generator's own copy of the registered state (for the Clean filter and stale classification)
	Out     []HStep
}

var genRPs = []string{"000", "001", "010", "100", "011"}
var genCollections = []string{"", "", "c1", "c2"}

const ttl3m = 3<<8 | 1 // needle.TTL{Count:3, Unit:Minute}

func NewGen(rng *rand.Rand, p GenParams) *Gen {
	g := &Gen{rng: rng, p: p, cat: make(map[uint32]*catEntry), nextVid: 1, reg: NewRegModel()}
	n := p.MinServers + rng.Intn(p.MaxServers-p.MinServers+1)
	multiDC := rng.Intn(3) > 0
	for i := 0; i < n; i++ {
		s := &tserver{idx: i, ip: fmt.Sprintf("10.0.0.%d", 1+i/2), port: 8080 + i%2,
			max: map[string]uint32{}, vols: map[uint32]*RegVol{}, ec: map[uint32]*RegEc{}, ecDisk: map[uint32]string{}}
		if multiDC {
			// rack names are reused across data centers; some servers use the defaults
			switch rng.Intn(5) {
			case 0:
			case 1, 2:
				s.dc, s.rack = "dc1", []string{"r1", "r2"}[rng.Intn(2)]
			default:
				s.dc, s.rack = "dc2", []string{"r1", "r2"}[rng.Intn(2)]
			}
		}
		s.max[""] = uint32(3 + rng.Intn(28))
		if rng.Intn(2) == 0 {
			s.max["ssd"] = uint32(1 + rng.Intn(12))
		}
		if rng.Intn(8) == 0 {
			s.max["nvme"] = uint32(1 + rng.Intn(6))
		}
		g.servers = append(g.servers, s)
	}
	return g
}

func (g *Gen) NumServers() int { return len(g.servers) }

// ---- emission

func (g *Gen) emit(st HStep) {
	switch st.Kind {
	case "beat":
		if g.p.Clean && !g.cleanse(st.Srv, st.HB) {
			return
		}
		g.reg.ApplyBeat(st.Srv, st.HB)
	case "close":
		g.reg.Disconnect(st.Srv)
	}
	g.Out = append(g.Out, st)
}

// cleanse rewrites or rejects (false) a heartbeat that would trigger one of the
// listed counter defects (see notes/C12.md); only used when p.Clean.
func (g *Gen) cleanse(idx int, hb *master_pb.Heartbeat) bool {
	rs := g.reg.server(idx)
	if !rs.Connected {
		return true
	}
	for _, d := range hb.DeletedVolumes {
		if rv, ok := rs.Vols[d.Id]; !ok || rv.Remote {
			return false
		}
	}
	if len(hb.EcShards) > 0 || hb.HasNoEcShards {
		if len(rs.Ec) >= 2 {
			want := map[uint32]uint32{}
			for _, e := range hb.EcShards {
				want[e.Id] = e.EcIndexBits
			}
			for id, old := range rs.Ec {
				if want[id] != old.Bits {
					return false
				}
			}
		}
	}
	changed := 0
	for k, v := range hb.MaxVolumeCounts {
		if v != 0 && rs.Max[normDisk(k)] != int64(v) {
			changed++
			if changed > 1 {
				hb.MaxVolumeCounts[k] = uint32(rs.Max[normDisk(k)])
			}
		}
	}
	return true
}

func (g *Gen) pickServer(pred func(*tserver) bool) *tserver {
	var c []*tserver
	for _, s := range g.servers {
		if pred == nil || pred(s) {
			c = append(c, s)
		}
	}
	if len(c) == 0 {
		return nil
	}
	return c[g.rng.Intn(len(c))]
}

func sortedVids(m map[uint32]*RegVol) []uint32 {
	out := make([]uint32, 0, len(m))
	for k := range m {
		out = append(out, k)
	}
	sort.Slice(out, func(i, j int) bool { return out[i] < out[j] })
	return out
}
func sortedEcVids(m map[uint32]*RegEc) []uint32 {
	out := make([]uint32, 0, len(m))
	for k := range m {
		out = append(out, k)
	}
	sort.Slice(out, func(i, j int) bool { return out[i] < out[j] })
	return out
}

func (g *Gen) pickReplica() (*tserver, uint32) {
	s := g.pickServer(func(s *tserver) bool { return len(s.vols) > 0 })
	if s == nil {
		return nil, 0
	}
	v := sortedVids(s.vols)
	return s, v[g.rng.Intn(len(v))]
}

func (g *Gen) holders(vid uint32) (out []*tserver) {
	for _, s := range g.servers {
		if _, ok := s.vols[vid]; ok {
			out = append(out, s)
		}
	}
	return
}

// ---- truth operations (no message is sent; incremental messages are queued)

func (g *Gen) enqueue(s *tserver, hb *master_pb.Heartbeat) { s.queue = append(s.queue, hb) }

func (g *Gen) placeReplica(s *tserver, c *catEntry, size uint64, ro bool) {
	v := &RegVol{Id: c.vid, Collection: c.collection, RP: c.rp, Ttl: c.ttl, DiskType: c.disk, Size: size, ReadOnly: ro}
	s.vols[c.vid] = v
	g.enqueue(s, &master_pb.Heartbeat{NewVolumes: []*master_pb.VolumeShortInformationMessage{ShortVolMsg(*v)}})
}

func (g *Gen) tCreateVolume() {
	c := &catEntry{vid: g.nextVid, collection: genCollections[g.rng.Intn(len(genCollections))], rp: RPByte(genRPs[g.rng.Intn(len(genRPs))])}
	g.nextVid++
	if g.rng.Intn(5) == 0 {
		c.ttl = ttl3m
	}
	if g.rng.Intn(5) == 0 {
		c.disk = "ssd"
	}
	var cands []*tserver
	for _, s := range g.servers {
		if _, ok := s.max[c.disk]; ok {
			cands = append(cands, s)
		}
	}
	if len(cands) == 0 {
		c.disk = ""
		cands = g.servers
	}
	k := RPFromByte(c.rp).GetCopyCount()
	switch x := g.rng.Intn(100); {
	case x < 12 && k > 1:
		k--
	case x >= 88:
		k++
	}
	if k > len(cands) {
		k = len(cands)
	}
	g.cat[c.vid] = c
	size := uint64(g.rng.Int63n(int64(g.p.Limit / 2)))
	for _, i := range g.rng.Perm(len(cands))[:k] {
		g.placeReplica(cands[i], c, size, false)
	}
}

func (g *Gen) tAddReplica() {
	_, vid := g.pickReplica()
	if vid == 0 {
		return
	}
	c := g.cat[vid]
	s := g.pickServer(func(s *tserver) bool { _, has := s.vols[vid]; _, d := s.max[c.disk]; return !has && d })
	if s == nil {
		return
	}
	h := g.holders(vid)
	g.placeReplica(s, c, h[0].vols[vid].Size, h[0].vols[vid].ReadOnly && g.rng.Intn(2) == 0)
}

func (g *Gen) tDeleteReplica() {
	s, vid := g.pickReplica()
	if s == nil {
		return
	}
	v := s.vols[vid]
	delete(s.vols, vid)
	g.enqueue(s, &master_pb.Heartbeat{DeletedVolumes: []*master_pb.VolumeShortInformationMessage{ShortVolMsg(*v)}})
}

func (g *Gen) tFlipRO() {
	s, vid := g.pickReplica()
	if s == nil {
		return
	}
	nv := !s.vols[vid].ReadOnly
	if g.rng.Intn(3) == 0 {
		for _, h := range g.holders(vid) {
			h.vols[vid].ReadOnly = nv
		}
	} else {
		s.vols[vid].ReadOnly = nv
	}
}

func (g *Gen) tResize(grow bool) {
	s, vid := g.pickReplica()
	if s == nil {
		return
	}
	L := g.p.Limit
	var size uint64
	if grow {
		size = []uint64{L - 1, L, L + 1, 2 * L, L - L/20, L/2 + 1}[g.rng.Intn(6)]
	} else {
		size = uint64(g.rng.Int63n(int64(L / 2)))
	}
	if g.rng.Intn(4) == 0 {
		s.vols[vid].Size = size
	} else {
		for _, h := range g.holders(vid) {
			h.vols[vid].Size = size
		}
	}
}

func (g *Gen) tToggleRemote() {
	s, vid := g.pickReplica()
	if s == nil {
		return
	}
	v := s.vols[vid]
	v.Remote = !v.Remote
	if v.Remote {
		v.ReadOnly = true // tiered volumes are read-only
	}
}

func (g *Gen) tChangeMax() {
	s := g.pickServer(nil)
	keys := make([]string, 0, len(s.max))
	for k := range s.max {
		keys = append(keys, k)
	}
	sort.Strings(keys)
	nv := func(old uint32) uint32 {
		if g.rng.Intn(10) == 0 {
			return 0
		}
		for {
			if v := uint32(1 + g.rng.Intn(30)); v != old {
				return v
			}
		}
	}
	if len(keys) > 1 && g.rng.Intn(5) < 2 {
		for _, k := range keys { // several disk types at once
			s.max[k] = nv(s.max[k])
		}
	} else {
		k := keys[g.rng.Intn(len(keys))]
		s.max[k] = nv(s.max[k])
	}
}

const ecAllBits = 1<<14 - 1

func (g *Gen) ecMount(s *tserver, vid uint32, collection, disk string, bits uint32) {
	if bits == 0 {
		return
	}
	e := s.ec[vid]
	if e == nil {
		if d, ok := s.ecDisk[vid]; ok {
			disk = d
		}
		s.ecDisk[vid] = disk
		e = &RegEc{Id: vid, Collection: collection, DiskType: disk}
		s.ec[vid] = e
	}
	e.Bits |= bits
	// the volume server sends one message per mounted shard; groups of shards keep the histories short
	parts := splitBits(g.rng, bits, 1+g.rng.Intn(2))
	for _, b := range parts {
		g.enqueue(s, &master_pb.Heartbeat{NewEcShards: []*master_pb.VolumeEcShardInformationMessage{EcMsg(RegEc{Id: vid, Collection: collection, DiskType: e.DiskType, Bits: b})}})
	}
}

func (g *Gen) ecUnmount(s *tserver, vid uint32, bits uint32) {
	e := s.ec[vid]
	if e == nil || bits == 0 {
		return
	}
	g.enqueue(s, &master_pb.Heartbeat{DeletedEcShards: []*master_pb.VolumeEcShardInformationMessage{EcMsg(RegEc{Id: vid, Collection: e.Collection, DiskType: e.DiskType, Bits: bits})}})
	e.Bits &^= bits
	if e.Bits == 0 {
		delete(s.ec, vid)
	}
}

func splitBits(rng *rand.Rand, bits uint32, n int) []uint32 {
	out := make([]uint32, n)
	for i := uint(0); i < 32; i++ {
		if bits&(1<<i) != 0 {
			out[rng.Intn(n)] |= 1 << i
		}
	}
	var r []uint32
	for _, b := range out {
		if b != 0 {
			r = append(r, b)
		}
	}
	return r
}

func randSubset(rng *rand.Rand, bits uint32) uint32 {
	var out uint32
	for i := uint(0); i < 32; i++ {
		if bits&(1<<i) != 0 && rng.Intn(2) == 0 {
			out |= 1 << i
		}
	}
	if out == 0 {
		out = bits & -bits
	}
	return out
}

// tEcSpread distributes the 14 shards of an EC volume over 1..4 servers.
func (g *Gen) tEcSpread(vid uint32, collection, disk string) {
	n := 1 + g.rng.Intn(4)
	if n > len(g.servers) {
		n = len(g.servers)
	}
	perm := g.rng.Perm(len(g.servers))[:n]
	assign := make([]uint32, n)
	for i := uint(0); i < 14; i++ {
		assign[g.rng.Intn(n)] |= 1 << i
	}
	for j, si := range perm {
		s := g.servers[si]
		d := disk
		if _, ok := s.max[d]; !ok {
			d = ""
		}
		g.ecMount(s, vid, collection, d, assign[j])
	}
}

func (g *Gen) tEcEncode() {
	_, vid := g.pickReplica()
	if vid == 0 {
		return
	}
	c := g.cat[vid]
	for _, h := range g.holders(vid) {
		h.vols[vid].ReadOnly = true
	}
	g.tEcSpread(vid, c.collection, c.disk)
	if g.rng.Intn(5) > 0 {
		for _, h := range g.holders(vid) {
			v := h.vols[vid]
			delete(h.vols, vid)
			g.enqueue(h, &master_pb.Heartbeat{DeletedVolumes: []*master_pb.VolumeShortInformationMessage{ShortVolMsg(*v)}})
		}
	}
}

func (g *Gen) tEcFresh() {
	vid := g.nextVid
	g.nextVid++
	col := genCollections[g.rng.Intn(len(genCollections))]
	g.cat[vid] = &catEntry{vid: vid, collection: col}
	g.tEcSpread(vid, col, "")
}

func (g *Gen) tEcChange() {
	s := g.pickServer(func(s *tserver) bool { return len(s.ec) > 0 })
	if s == nil {
		g.tEcFresh()
		return
	}
	vids := sortedEcVids(s.ec)
	// one or several EC volumes of this server change at once
	k := 1
	if g.rng.Intn(2) == 0 {
		k = 1 + g.rng.Intn(3)
	}
	for _, i := range g.rng.Perm(len(vids)) {
		if k == 0 {
			break
		}
		k--
		vid := vids[i]
		e := s.ec[vid]
		switch g.rng.Intn(4) {
		case 0: // unmount some shards
			g.ecUnmount(s, vid, randSubset(g.rng, e.Bits))
		case 1: // unmount all
			g.ecUnmount(s, vid, e.Bits)
		case 2: // mount shards that are missing here (copy from elsewhere)
			if miss := uint32(ecAllBits) &^ e.Bits; miss != 0 {
				g.ecMount(s, vid, e.Collection, e.DiskType, randSubset(g.rng, miss))
			}
		default: // move some shards to another server
			b := randSubset(g.rng, e.Bits)
			col, disk := e.Collection, e.DiskType
			g.ecUnmount(s, vid, b)
			if t := g.pickServer(func(t *tserver) bool { return t != s }); t != nil {
				d := disk
				if te := t.ec[vid]; te != nil {
					d = te.DiskType
				} else if _, ok := t.max[d]; !ok {
					d = ""
				}
				g.ecMount(t, vid, col, d, b)
			}
		}
	}
}

// ---- message operations

func (g *Gen) fullBeat(s *tserver) *master_pb.Heartbeat {
	hb := &master_pb.Heartbeat{Ip: s.ip, Port: uint32(s.port), PublicUrl: fmt.Sprintf("%s:%d", s.ip, s.port),
		MaxVolumeCounts: map[string]uint32{}, MaxFileKey: uint64(1000 + g.rng.Intn(100000)), DataCenter: s.dc, Rack: s.rack}
	for k, v := range s.max {
		hb.MaxVolumeCounts[k] = v
	}
	vids := sortedVids(s.vols)
	g.rng.Shuffle(len(vids), func(i, j int) { vids[i], vids[j] = vids[j], vids[i] })
	for _, id := range vids {
		hb.Volumes = append(hb.Volumes, FullVolMsg(*s.vols[id]))
	}
	hb.HasNoVolumes = len(hb.Volumes) == 0
	return hb
}

func (g *Gen) ecFullBeat(s *tserver) *master_pb.Heartbeat {
	hb := &master_pb.Heartbeat{}
	vids := sortedEcVids(s.ec)
	g.rng.Shuffle(len(vids), func(i, j int) { vids[i], vids[j] = vids[j], vids[i] })
	for _, id := range vids {
		hb.EcShards = append(hb.EcShards, EcMsg(*s.ec[id]))
	}
	hb.HasNoEcShards = len(hb.EcShards) == 0
	return hb
}

func (g *Gen) mConnect(s *tserver) {
	g.emit(HStep{Kind: "connect", Srv: s.idx})
	s.connected = true
	g.emit(HStep{Kind: "beat", Srv: s.idx, HB: g.fullBeat(s), Tag: "first-full"})
	if g.rng.Intn(5) > 0 {
		g.emit(HStep{Kind: "beat", Srv: s.idx, HB: g.ecFullBeat(s), Tag: "ec-full"})
	}
}

func (g *Gen) mDisconnect(s *tserver) {
	if g.rng.Intn(4) == 0 {
		// graceful stop: "stops and deletes all volumes"
		g.emit(HStep{Kind: "beat", Srv: s.idx, Tag: "stop", HB: &master_pb.Heartbeat{Ip: s.ip, Port: uint32(s.port),
			PublicUrl: fmt.Sprintf("%s:%d", s.ip, s.port), DataCenter: s.dc, Rack: s.rack, HasNoVolumes: true}})
	}
	g.emit(HStep{Kind: "close", Srv: s.idx})
	s.connected = false
}

func mergeBeats(a, b *master_pb.Heartbeat) *master_pb.Heartbeat {
	return &master_pb.Heartbeat{
		NewVolumes:      append(append([]*master_pb.VolumeShortInformationMessage{}, a.NewVolumes...), b.NewVolumes...),
		DeletedVolumes:  append(append([]*master_pb.VolumeShortInformationMessage{}, a.DeletedVolumes...), b.DeletedVolumes...),
		NewEcShards:     append(append([]*master_pb.VolumeEcShardInformationMessage{}, a.NewEcShards...), b.NewEcShards...),
		DeletedEcShards: append(append([]*master_pb.VolumeEcShardInformationMessage{}, a.DeletedEcShards...), b.DeletedEcShards...),
	}
}

func mentions(hb *master_pb.Heartbeat) map[uint32]bool {
	m := map[uint32]bool{}
	for _, v := range hb.NewVolumes {
		m[v.Id] = true
	}
	for _, v := range hb.DeletedVolumes {
		m[v.Id] = true
	}
	for _, v := range hb.NewEcShards {
		m[v.Id] = true
	}
	for _, v := range hb.DeletedEcShards {
		m[v.Id] = true
	}
	return m
}

// wouldTrigger says whether an incremental message hits one of the listed counter
// defects in the current registered state (such a message is never merged with
// another one, so that the cause of a counter divergence stays attributable).
func (g *Gen) wouldTrigger(idx int, hb *master_pb.Heartbeat) bool {
	rs := g.reg.server(idx)
	for _, d := range hb.DeletedVolumes {
		if rv, ok := rs.Vols[d.Id]; !ok || rv.Remote {
			return true
		}
	}
	return false
}

func (g *Gen) mDelta(s *tserver) {
	if len(s.queue) == 0 && len(s.sent) == 0 {
		g.emit(HStep{Kind: "beat", Srv: s.idx, HB: g.fullBeat(s), Tag: "full"})
		return
	}
	x := g.rng.Intn(100)
	switch {
	case (x < 15 && len(s.sent) > 0) || len(s.queue) == 0:
		hb := s.sent[g.rng.Intn(len(s.sent))]
		g.emit(HStep{Kind: "beat", Srv: s.idx, HB: hb, Tag: "delta-dup"})
	case x < 30 && len(s.queue) > 1:
		i := 1 + g.rng.Intn(len(s.queue)-1)
		hb := s.queue[i]
		s.queue = append(s.queue[:i:i], s.queue[i+1:]...)
		s.remember(hb)
		g.emit(HStep{Kind: "beat", Srv: s.idx, HB: hb, Tag: "delta-reordered"})
	case x < 42 && len(s.queue) > 1:
		// several queued messages delivered in one heartbeat (the handler accepts lists); distinct volumes only
		hb := s.queue[0]
		n := 1
		for n < len(s.queue) && n < 3 {
			nx := s.queue[n]
			clash := g.wouldTrigger(s.idx, hb) || g.wouldTrigger(s.idx, nx)
			for id := range mentions(nx) {
				if mentions(hb)[id] {
					clash = true
				}
			}
			if clash {
				break
			}
			hb = mergeBeats(hb, nx)
			n++
		}
		for _, q := range s.queue[:n] {
			s.remember(q)
		}
		s.queue = s.queue[n:]
		tag := "delta"
		if n > 1 {
			tag = "delta-merged"
		}
		g.emit(HStep{Kind: "beat", Srv: s.idx, HB: hb, Tag: tag})
	default:
		hb := s.queue[0]
		s.queue = s.queue[1:]
		s.remember(hb)
		g.emit(HStep{Kind: "beat", Srv: s.idx, HB: hb, Tag: "delta"})
	}
}

func (s *tserver) remember(hb *master_pb.Heartbeat) {
	s.sent = append(s.sent, hb)
	if len(s.sent) > 6 {
		s.sent = s.sent[1:]
	}
}

// Run produces the history.
func (g *Gen) Run() []HStep {
	// start-up: every server gets some volumes, most servers connect
	for i := 0; i < 3+g.rng.Intn(4); i++ {
		g.tCreateVolume()
	}
	if g.rng.Intn(2) == 0 {
		g.tEcFresh()
	}
	for _, s := range g.servers {
		if g.rng.Intn(6) > 0 {
			s.queue = nil // a server that starts with its volumes reports them in the first full heartbeat only
			g.mConnect(s)
		}
	}
	base := len(g.Out)
	for guard := 0; len(g.Out)-base < g.p.Steps && guard < g.p.Steps*20; guard++ {
		x := g.rng.Intn(1000)
		switch {
		// ---- truth changes
		case x < 90:
			g.tCreateVolume()
		case x < 125:
			g.tAddReplica()
		case x < 175:
			g.tDeleteReplica()
		case x < 240:
			g.tFlipRO()
		case x < 300:
			g.tResize(true)
		case x < 320:
			g.tResize(false)
		case x < 345:
			g.tToggleRemote()
		case x < 385:
			g.tChangeMax()
		case x < 405:
			g.tEcEncode()
		case x < 420:
			g.tEcFresh()
		case x < 470:
			g.tEcChange()
		// ---- messages
		case x < 650:
			if s := g.pickServer(func(s *tserver) bool { return s.connected }); s != nil {
				g.emit(HStep{Kind: "beat", Srv: s.idx, HB: g.fullBeat(s), Tag: "full"})
			}
		case x < 710:
			if s := g.pickServer(func(s *tserver) bool { return s.connected }); s != nil {
				g.emit(HStep{Kind: "beat", Srv: s.idx, HB: g.ecFullBeat(s), Tag: "ec-full"})
			}
		case x < 860:
			s := g.pickServer(func(s *tserver) bool { return s.connected && len(s.queue) > 0 })
			if s == nil {
				s = g.pickServer(func(s *tserver) bool { return s.connected })
			}
			if s != nil {
				g.mDelta(s)
			}
		case x < 900:
			if s := g.pickServer(func(s *tserver) bool { return s.connected }); s != nil {
				g.mDisconnect(s)
			}
		case x < 945:
			if s := g.pickServer(func(s *tserver) bool { return !s.connected }); s != nil {
				g.mConnect(s)
			}
		default:
			g.emit(HStep{Kind: "tick"})
		}
	}
	return g.Out
}

// ---------------------------------------------------------------------------
// executor

type HExec struct {
	M     *InProcMaster
	Model *RegModel
	mu    sync.Mutex
	sess  map[int]*HBSession
}

func NewHExec(m *InProcMaster) *HExec {
	return &HExec{M: m, Model: NewRegModel(), sess: make(map[int]*HBSession)}
}

// Step applies one step to the real master and to the model.
func (e *HExec) Step(st HStep) (bi BeatInfo, err error) {
	switch st.Kind {
	case "connect":
		e.mu.Lock()
		old := e.sess[st.Srv]
		e.mu.Unlock()
		if old != nil {
			return bi, fmt.Errorf("server %d already has a session", st.Srv)
		}
		s := e.M.Open()
		e.mu.Lock()
		e.sess[st.Srv] = s
		e.mu.Unlock()
	case "beat":
		e.mu.Lock()
		s := e.sess[st.Srv]
		e.mu.Unlock()
		if s == nil {
			return bi, fmt.Errorf("server %d has no session", st.Srv)
		}
		if _, err = s.Beat(st.HB); err != nil {
			return bi, err
		}
		bi = e.Model.ApplyBeat(st.Srv, st.HB)
	case "close":
		e.mu.Lock()
		s := e.sess[st.Srv]
		delete(e.sess, st.Srv)
		e.mu.Unlock()
		if s == nil {
			return bi, fmt.Errorf("server %d has no session", st.Srv)
		}
		if err = s.Close(); err != nil {
			return bi, err
		}
		e.Model.Disconnect(st.Srv)
	case "tick":
		e.M.RefreshTick()
	default:
		err = fmt.Errorf("unknown step kind %q", st.Kind)
	}
	return
}

// Concurrent executes the steps with one goroutine per server (per-server order
// kept) and one for the refresh ticks; it returns at the barrier.
func (e *HExec) Concurrent(steps []HStep) error {
	groups := map[int][]HStep{}
	for _, st := range steps {
		k := st.Srv
		if st.Kind == "tick" {
			k = -1
		}
		groups[k] = append(groups[k], st)
	}
	var wg sync.WaitGroup
	errs := make(chan error, len(steps)+1)
	for _, grp := range groups {
		wg.Add(1)
		go func(grp []HStep) {
			defer wg.Done()
			for _, st := range grp {
				if _, err := e.Step(st); err != nil {
					errs <- err
					return
				}
			}
		}(grp)
	}
	wg.Wait()
	select {
	case err := <-errs:
		return err
	default:
		return nil
	}
}

// DropSession detaches (without closing) the session of server idx and returns it;
// for scenarios that manage a stream by hand (overlapping reconnect).
func (e *HExec) DropSession(idx int) *HBSession {
	e.mu.Lock()
	defer e.mu.Unlock()
	s := e.sess[idx]
	delete(e.sess, idx)
	return s
}

// Connected lists the servers that currently have a session.
func (e *HExec) Connected() []int {
	e.mu.Lock()
	defer e.mu.Unlock()
	var out []int
	for k := range e.sess {
		out = append(out, k)
	}
	sort.Ints(out)
	return out
}

// CloseAll disconnects every server (the end of every history: server removal).
func (e *HExec) CloseAll() error {
	for _, k := range e.Connected() {
		if _, err := e.Step(HStep{Kind: "close", Srv: k}); err != nil {
			return err
		}
	}
	return nil
}

// RunHistory executes steps one by one; after every step check is called with the
// step, its classification and the list of steps executed so far (enough to
// re-execute the case). check returns the servers whose session must be
// re-established because a *listed* finding was just observed on them (resync);
// the inserted steps are executed and checked like any other and are part of the
// returned list. With replay=true nothing is inserted (the recorded list already
// contains the resync steps).
func RunHistory(ex *HExec, steps []HStep, replay bool, check func(st HStep, bi BeatInfo, executed []HStep) (resync []int)) (executed []HStep, err error) {
	do := func(st HStep) ([]int, error) {
		bi, err := ex.Step(st)
		if err != nil {
			return nil, err
		}
		executed = append(executed, st)
		return check(st, bi, executed), nil
	}
	for _, st := range steps {
		rs, err := do(st)
		if err != nil {
			return executed, err
		}
		if replay {
			continue
		}
		for _, idx := range rs {
			m := ex.Model.Server(idx)
			if !m.Connected {
				continue
			}
			full, ec := m.ResyncBeats()
			for _, ins := range []HStep{{Kind: "close", Srv: idx, Tag: "resync"}, {Kind: "connect", Srv: idx, Tag: "resync"},
				{Kind: "beat", Srv: idx, HB: full, Tag: "resync"}, {Kind: "beat", Srv: idx, HB: ec, Tag: "resync"}} {
				if _, err := do(ins); err != nil {
					return executed, err
				}
			}
		}
	}
	return executed, nil
}
