package lib

// Independent replica-placement legality checker shared by C10 and C15.
// It knows nothing about the code under test: a replication setting "xyz" asks for
// 1+x+y+z replicas on distinct servers, z+1 of them in one rack (the main rack),
// y in y other racks of the same data center (the main data center), and x in x
// other data centers. A rack is identified by (data center, rack name).

import (
	"io/ioutil"
	"os"
)

// Loc is where one replica lives.
type Loc struct {
	Dc   string `json:"dc"`
	Rack string `json:"rack"`
	Node string `json:"node"`
}

func (l Loc) rackKey() string { return l.Dc + "\x00" + l.Rack }

// PlacementDistinct reports whether no two replicas share a server.
func PlacementDistinct(locs []Loc) bool {
	seen := make(map[string]bool)
	for _, l := range locs {
		k := l.Dc + "\x00" + l.Rack + "\x00" + l.Node
		if seen[k] {
			return false
		}
		seen[k] = true
	}
	return true
}

// fits reports whether the replicas can be part of a layout whose main data
// center is mainDc and whose main rack is (mainDc, mainRack). With exact=true the
// replicas must be the complete layout.
func fits(x, y, z int, locs []Loc, mainDc, mainRack string, exact bool) bool {
	otherDc := make(map[string]int)
	otherRack := make(map[string]int)
	inMainRack := 0
	for _, l := range locs {
		switch {
		case l.Dc != mainDc:
			otherDc[l.Dc]++
		case l.Rack != mainRack:
			otherRack[l.Rack]++
		default:
			inMainRack++
		}
	}
	for _, c := range otherDc {
		if c != 1 {
			return false
		}
	}
	for _, c := range otherRack {
		if c != 1 {
			return false
		}
	}
	if len(otherDc) > x || len(otherRack) > y || inMainRack > z+1 {
		return false
	}
	if exact && (len(otherDc) != x || len(otherRack) != y || inMainRack != z+1) {
		return false
	}
	return true
}

func tryAllMains(x, y, z int, locs []Loc, exact bool) bool {
	dcs := map[string]bool{"\x01new-dc": true}
	for _, l := range locs {
		dcs[l.Dc] = true
	}
	for dc := range dcs {
		racks := map[string]bool{"\x01new-rack": true}
		for _, l := range locs {
			if l.Dc == dc {
				racks[l.Rack] = true
			}
		}
		for rack := range racks {
			if fits(x, y, z, locs, dc, rack, exact) {
				return true
			}
		}
	}
	return false
}

// PlacementExact: the replicas are exactly one legal layout for xyz.
func PlacementExact(x, y, z int, locs []Loc) bool {
	if len(locs) != 1+x+y+z || !PlacementDistinct(locs) {
		return false
	}
	return tryAllMains(x, y, z, locs, true)
}

// PlacementCompletable: the replicas (at most 1+x+y+z of them) can be completed
// to a legal layout by adding replicas somewhere (an idealised cluster with
// enough other data centers, racks and servers).
func PlacementCompletable(x, y, z int, locs []Loc) bool {
	if len(locs) > 1+x+y+z || !PlacementDistinct(locs) {
		return false
	}
	return tryAllMains(x, y, z, locs, false)
}

// PlacementContainsLegal: some subset of the replicas is a complete legal layout.
func PlacementContainsLegal(x, y, z int, locs []Loc) bool {
	n := 1 + x + y + z
	if len(locs) < n || !PlacementDistinct(locs) {
		return false
	}
	idx := make([]int, n)
	var rec func(start, k int) bool
	rec = func(start, k int) bool {
		if k == n {
			sub := make([]Loc, n)
			for i, j := range idx {
				sub[i] = locs[j]
			}
			return tryAllMains(x, y, z, sub, true)
		}
		for i := start; i <= len(locs)-(n-k); i++ {
			idx[k] = i
			if rec(i+1, k+1) {
				return true
			}
		}
		return false
	}
	return rec(0, 0)
}

// PlacementSatisfied is the reading of "the replicas satisfy the replication
// setting" used by the monitors: complete sets must be a legal layout, smaller
// sets must be completable to one, larger sets must contain one.
func PlacementSatisfied(x, y, z int, locs []Loc) bool {
	n := 1 + x + y + z
	switch {
	case len(locs) == n:
		return PlacementExact(x, y, z, locs)
	case len(locs) < n:
		return PlacementCompletable(x, y, z, locs)
	default:
		return PlacementContainsLegal(x, y, z, locs)
	}
}

// StdoutCapture redirects os.Stdout into a scratch file while a planner of the
// code under test runs (the shell planners print their moves with fmt.Printf /
// fmt.Fprintf(os.Stdout, ...)).
type StdoutCapture struct {
	f *os.File
}

func NewStdoutCapture(dir string) (*StdoutCapture, error) {
	f, err := ioutil.TempFile(dir, "stdout-")
	if err != nil {
		return nil, err
	}
	return &StdoutCapture{f: f}, nil
}

// Run executes fn with os.Stdout redirected and returns what was printed and the
// recovered panic value (nil when fn returned normally).
func (c *StdoutCapture) Run(fn func()) (out string, panicked interface{}) {
	_ = c.f.Truncate(0)
	_, _ = c.f.Seek(0, 0)
	saved := os.Stdout
	os.Stdout = c.f
	func() {
		defer func() {
			panicked = recover()
			os.Stdout = saved
		}()
		fn()
	}()
	_, _ = c.f.Seek(0, 0)
	b, _ := ioutil.ReadAll(c.f)
	return string(b), panicked
}

func (c *StdoutCapture) Close() {
	name := c.f.Name()
	_ = c.f.Close()
	_ = os.Remove(name)
}
