package lib

// Shared in-process filer substrate of C18, C20 and C21: a real filer.Filer over
// an embedded leveldb/leveldb2/leveldb3 store in a scratch directory, wrapped by a
// counting FilerStore (call budget = logical steps), operations through the real
// FilerServer gRPC handler methods (weed_server.VerifNewFilerServer), a fake master
// (KeepConnected stream that hands the filer's MasterClient one volume location)
// and a blob server for manifest chunks behind that location.

import (
	"bytes"
	"compress/gzip"
	"context"
	"errors"
	"fmt"
	"io/ioutil"
	"net"
	"net/http"
	"os"
	"sort"
	"strings"
	"sync"
	"sync/atomic"
	"time"

	"github.com/golang/protobuf/proto"
	"google.golang.org/grpc"

	"github.com/chrislusf/seaweedfs/weed/filer"
	"github.com/chrislusf/seaweedfs/weed/filer/leveldb"
	leveldb2 "github.com/chrislusf/seaweedfs/weed/filer/leveldb2"
	leveldb3 "github.com/chrislusf/seaweedfs/weed/filer/leveldb3"
	"github.com/chrislusf/seaweedfs/weed/pb"
	"github.com/chrislusf/seaweedfs/weed/pb/filer_pb"
	"github.com/chrislusf/seaweedfs/weed/pb/master_pb"
	"github.com/chrislusf/seaweedfs/weed/pb/volume_server_pb"
	weed_server "github.com/chrislusf/seaweedfs/weed/server"
	"github.com/chrislusf/seaweedfs/weed/util"
)

// FilerStoreKinds are the embedded stores the filer drivers run on.
var FilerStoreKinds = []string{"leveldb", "leveldb2", "leveldb3"}

// ErrStoreBudget is what the counting store answers once the per-operation call
// budget is used up: a non-terminating operation unwinds instead of running forever.
var ErrStoreBudget = errors.New("verif: store call budget exceeded")

// CountingStore delegates to a real FilerStore and counts calls. With a budget set,
// calls beyond it fail with ErrStoreBudget (soft limit); calls beyond hardFactor x
// budget invoke OnRunaway (the code under test ignores the errors and keeps going).
type CountingStore struct {
	OnRunaway func(used int64)

	innerMu sync.RWMutex
	inner   filer.FilerStore

	total     int64
	budget    int64
	used      int64
	exceeded  int32
	mu        sync.Mutex
	byKind    map[string]int64
	faults    map[string]int
	faultsHit int
}

const hardFactor = 50

func NewCountingStore(inner filer.FilerStore) *CountingStore {
	return &CountingStore{inner: inner, byKind: make(map[string]int64)}
}

// Inner returns the real store behind the counter.
func (c *CountingStore) Inner() filer.FilerStore {
	c.innerMu.RLock()
	defer c.innerMu.RUnlock()
	return c.inner
}

// SetInner swaps the real store (harness-side: a fresh empty store for the next cases).
func (c *CountingStore) SetInner(s filer.FilerStore) {
	c.innerMu.Lock()
	c.inner = s
	c.innerMu.Unlock()
}

// ErrInjectedFault is the error of a store call failed on purpose (InjectFault).
var ErrInjectedFault = errors.New("verif: injected store fault")

// InjectFault makes the next n calls of the named store method (insert, update, find, delete,
// deleteFolderChildren, list, prefixList, kvput, kvget, kvdelete, begin, commit) fail.
func (c *CountingStore) InjectFault(kind string, n int) {
	c.mu.Lock()
	if c.faults == nil {
		c.faults = make(map[string]int)
	}
	c.faults[kind] = n
	c.mu.Unlock()
}

// ClearFaults removes pending faults and returns how many injected faults were hit since the last call.
func (c *CountingStore) ClearFaults() (hit int) {
	c.mu.Lock()
	c.faults = nil
	hit, c.faultsHit = c.faultsHit, 0
	c.mu.Unlock()
	return
}

func (c *CountingStore) step(kind string) error {
	atomic.AddInt64(&c.total, 1)
	c.mu.Lock()
	c.byKind[kind]++
	if c.faults[kind] > 0 {
		c.faults[kind]--
		c.faultsHit++
		c.mu.Unlock()
		return ErrInjectedFault
	}
	c.mu.Unlock()
	b := atomic.LoadInt64(&c.budget)
	if b <= 0 {
		return nil
	}
	u := atomic.AddInt64(&c.used, 1)
	if u > b {
		atomic.StoreInt32(&c.exceeded, 1)
		if u > b*hardFactor && c.OnRunaway != nil {
			c.OnRunaway(u)
		}
		return ErrStoreBudget
	}
	return nil
}

// SetBudget starts a budgeted section of n store calls.
func (c *CountingStore) SetBudget(n int64) {
	atomic.StoreInt64(&c.used, 0)
	atomic.StoreInt32(&c.exceeded, 0)
	atomic.StoreInt64(&c.budget, n)
}

// ClearBudget ends the budgeted section; it returns the calls used and whether the budget was exceeded.
func (c *CountingStore) ClearBudget() (used int64, exceeded bool) {
	atomic.StoreInt64(&c.budget, 0)
	return atomic.LoadInt64(&c.used), atomic.LoadInt32(&c.exceeded) == 1
}

// Total returns the number of store calls made so far.
func (c *CountingStore) Total() int64 { return atomic.LoadInt64(&c.total) }

// ByKind returns a copy of the per-method call counts.
func (c *CountingStore) ByKind() map[string]int64 {
	c.mu.Lock()
	defer c.mu.Unlock()
	m := make(map[string]int64, len(c.byKind))
	for k, v := range c.byKind {
		m[k] = v
	}
	return m
}

func (c *CountingStore) GetName() string { return c.Inner().GetName() }
func (c *CountingStore) Initialize(configuration util.Configuration, prefix string) error {
	return c.Inner().Initialize(configuration, prefix)
}
func (c *CountingStore) InsertEntry(ctx context.Context, e *filer.Entry) error {
	if err := c.step("insert"); err != nil {
		return err
	}
	return c.Inner().InsertEntry(ctx, e)
}
func (c *CountingStore) UpdateEntry(ctx context.Context, e *filer.Entry) error {
	if err := c.step("update"); err != nil {
		return err
	}
	return c.Inner().UpdateEntry(ctx, e)
}
func (c *CountingStore) FindEntry(ctx context.Context, p util.FullPath) (*filer.Entry, error) {
	if err := c.step("find"); err != nil {
		return nil, err
	}
	return c.Inner().FindEntry(ctx, p)
}
func (c *CountingStore) DeleteEntry(ctx context.Context, p util.FullPath) error {
	if err := c.step("delete"); err != nil {
		return err
	}
	return c.Inner().DeleteEntry(ctx, p)
}
func (c *CountingStore) DeleteFolderChildren(ctx context.Context, p util.FullPath) error {
	if err := c.step("deleteFolderChildren"); err != nil {
		return err
	}
	return c.Inner().DeleteFolderChildren(ctx, p)
}
func (c *CountingStore) ListDirectoryEntries(ctx context.Context, dirPath util.FullPath, startFileName string, includeStartFile bool, limit int64, eachEntryFunc filer.ListEachEntryFunc) (string, error) {
	if err := c.step("list"); err != nil {
		return "", err
	}
	return c.Inner().ListDirectoryEntries(ctx, dirPath, startFileName, includeStartFile, limit, eachEntryFunc)
}
func (c *CountingStore) ListDirectoryPrefixedEntries(ctx context.Context, dirPath util.FullPath, startFileName string, includeStartFile bool, limit int64, prefix string, eachEntryFunc filer.ListEachEntryFunc) (string, error) {
	if err := c.step("prefixList"); err != nil {
		return "", err
	}
	return c.Inner().ListDirectoryPrefixedEntries(ctx, dirPath, startFileName, includeStartFile, limit, prefix, eachEntryFunc)
}
func (c *CountingStore) BeginTransaction(ctx context.Context) (context.Context, error) {
	if err := c.step("begin"); err != nil {
		return ctx, err
	}
	return c.Inner().BeginTransaction(ctx)
}
func (c *CountingStore) CommitTransaction(ctx context.Context) error {
	if err := c.step("commit"); err != nil {
		return err
	}
	return c.Inner().CommitTransaction(ctx)
}
func (c *CountingStore) RollbackTransaction(ctx context.Context) error {
	_ = c.step("rollback")
	return c.Inner().RollbackTransaction(ctx)
}
func (c *CountingStore) KvPut(ctx context.Context, key []byte, value []byte) error {
	if err := c.step("kvput"); err != nil {
		return err
	}
	return c.Inner().KvPut(ctx, key, value)
}
func (c *CountingStore) KvGet(ctx context.Context, key []byte) ([]byte, error) {
	if err := c.step("kvget"); err != nil {
		return nil, err
	}
	return c.Inner().KvGet(ctx, key)
}
func (c *CountingStore) KvDelete(ctx context.Context, key []byte) error {
	if err := c.step("kvdelete"); err != nil {
		return err
	}
	return c.Inner().KvDelete(ctx, key)
}
func (c *CountingStore) Shutdown() { c.Inner().Shutdown() }

// BucketAware is forwarded when the real store has it (leveldb3).
func (c *CountingStore) OnBucketCreation(bucket string) {
	if ba, ok := c.Inner().(filer.BucketAware); ok {
		ba.OnBucketCreation(bucket)
	}
}
func (c *CountingStore) OnBucketDeletion(bucket string) {
	if ba, ok := c.Inner().(filer.BucketAware); ok {
		ba.OnBucketDeletion(bucket)
	}
}
func (c *CountingStore) CanDropWholeBucket() bool {
	if ba, ok := c.Inner().(filer.BucketAware); ok {
		return ba.CanDropWholeBucket()
	}
	return false
}

type mapConfig map[string]string

func (m mapConfig) GetString(key string) string          { return m[key] }
func (m mapConfig) GetBool(key string) bool              { return m[key] == "true" }
func (m mapConfig) GetInt(key string) int                { return 0 }
func (m mapConfig) GetStringSlice(key string) []string   { return nil }
func (m mapConfig) SetDefault(key string, v interface{}) {}

// ---------------------------------------------------------------------------
// fake master + blob server

// BlobMaster is a harness-side master (KeepConnected + CollectionDelete) and a
// volume-server stand-in (HTTP GET of blobs, gRPC BatchDelete) on loopback.
type BlobMaster struct {
	MasterAddr string // "127.0.0.1:p" (gRPC on p+10000)
	BlobAddr   string // "127.0.0.1:q" (HTTP on q, gRPC on q+10000)
	Vid        uint32 // the one volume id the master announces

	master_pb.UnimplementedSeaweedServer
	mu                 sync.Mutex
	blobs              map[string][]byte
	blobReads          int64
	batchDeleted       int64
	assignCalls        int64
	assignAllowed      int64
	assignKey          int64
	uploads            int64
	gzipped            map[string]bool
	collectionsDeleted []string
	stop               []func()
}

type volStub struct {
	volume_server_pb.UnimplementedVolumeServerServer
	b *BlobMaster
}

func (v *volStub) BatchDelete(ctx context.Context, req *volume_server_pb.BatchDeleteRequest) (*volume_server_pb.BatchDeleteResponse, error) {
	resp := &volume_server_pb.BatchDeleteResponse{}
	for _, f := range req.FileIds {
		resp.Results = append(resp.Results, &volume_server_pb.DeleteResult{FileId: f, Status: http.StatusAccepted})
	}
	atomic.AddInt64(&v.b.batchDeleted, int64(len(req.FileIds)))
	return resp, nil
}

func (b *BlobMaster) KeepConnected(stream master_pb.Seaweed_KeepConnectedServer) error {
	if _, err := stream.Recv(); err != nil {
		return err
	}
	if err := stream.Send(&master_pb.VolumeLocation{Url: b.BlobAddr, PublicUrl: b.BlobAddr, NewVids: []uint32{b.Vid}}); err != nil {
		return err
	}
	<-stream.Context().Done()
	return nil
}

// Assign never answers: the only caller in these drivers is the filer's metadata-log
// flush (once a minute per Filer). An error answer would make the shared cached gRPC
// connection to the master be closed after a few failures (pb.WithCachedGrpcClient),
// breaking every KeepConnected stream of the process; a success would make the filer
// write its log files into the namespace under test. The flush goroutine just waits.
//
// AllowAssign(n) lets the next n calls succeed (file id on the announced volume, url
// of the blob server, which then accepts the upload): used by the one C20 case that
// drives the filer's own MaybeManifestize/saveAsChunk in-process, in a fresh world
// that is younger than the one-minute flush interval.
func (b *BlobMaster) Assign(ctx context.Context, req *master_pb.AssignRequest) (*master_pb.AssignResponse, error) {
	atomic.AddInt64(&b.assignCalls, 1)
	if atomic.AddInt64(&b.assignAllowed, -1) >= 0 {
		key := atomic.AddInt64(&b.assignKey, 1)
		return &master_pb.AssignResponse{Fid: Fid(b.Vid, uint64(0x7000000+key), 0x5eed5eed), Url: b.BlobAddr, PublicUrl: b.BlobAddr, Count: 1}, nil
	}
	atomic.StoreInt64(&b.assignAllowed, 0)
	<-ctx.Done()
	return nil, ctx.Err()
}

// AllowAssign makes the next n Assign calls succeed.
func (b *BlobMaster) AllowAssign(n int64) { atomic.StoreInt64(&b.assignAllowed, n) }

// GetBlob returns the (uncompressed) content stored under a file id.
func (b *BlobMaster) GetBlob(fid string) ([]byte, bool) {
	b.mu.Lock()
	data, ok := b.blobs[fid]
	gz := b.gzipped[fid]
	b.mu.Unlock()
	if ok && gz {
		zr, err := gzip.NewReader(bytes.NewReader(data))
		if err != nil {
			return nil, false
		}
		out, err := ioutil.ReadAll(zr)
		if err != nil {
			return nil, false
		}
		return out, true
	}
	return data, ok
}

// ManifestChildren decodes the manifest blob stored under fid (nil if there is none).
func (b *BlobMaster) ManifestChildren(fid string) []*filer_pb.FileChunk {
	data, ok := b.GetBlob(fid)
	if !ok {
		return nil
	}
	m := &filer_pb.FileChunkManifest{}
	if err := proto.Unmarshal(data, m); err != nil {
		return nil
	}
	filer_pb.AfterEntryDeserialization(m.Chunks)
	return m.Chunks
}

func (b *BlobMaster) CollectionDelete(ctx context.Context, req *master_pb.CollectionDeleteRequest) (*master_pb.CollectionDeleteResponse, error) {
	b.mu.Lock()
	b.collectionsDeleted = append(b.collectionsDeleted, req.Name)
	b.mu.Unlock()
	return &master_pb.CollectionDeleteResponse{}, nil
}

// CollectionsDeleted returns the collection names the filer asked the master to drop.
func (b *BlobMaster) CollectionsDeleted() []string {
	b.mu.Lock()
	defer b.mu.Unlock()
	return append([]string(nil), b.collectionsDeleted...)
}

// BlobReads returns how many blob GETs were served (manifest resolutions by the filer).
func (b *BlobMaster) BlobReads() int64 { return atomic.LoadInt64(&b.blobReads) }

// BatchDeleted returns how many file ids reached the volume-server stand-in.
func (b *BlobMaster) BatchDeleted() int64 { return atomic.LoadInt64(&b.batchDeleted) }

// PutBlob stores the content served for a file id.
func (b *BlobMaster) PutBlob(fid string, data []byte) {
	b.mu.Lock()
	b.blobs[fid] = data
	b.mu.Unlock()
}

func (b *BlobMaster) ServeHTTP(w http.ResponseWriter, req *http.Request) {
	fid := strings.TrimPrefix(req.URL.Path, "/")
	if req.Method == http.MethodPost || req.Method == http.MethodPut {
		// upload as operation.upload_content sends it: one multipart part, optionally gzip-encoded
		mr, err := req.MultipartReader()
		if err != nil {
			http.Error(w, err.Error(), http.StatusBadRequest)
			return
		}
		part, err := mr.NextPart()
		if err != nil {
			http.Error(w, err.Error(), http.StatusBadRequest)
			return
		}
		data, _ := ioutil.ReadAll(part)
		b.mu.Lock()
		b.blobs[fid] = data
		b.gzipped[fid] = part.Header.Get("Content-Encoding") == "gzip"
		b.mu.Unlock()
		atomic.AddInt64(&b.uploads, 1)
		w.Header().Set("Content-Type", "application/json")
		w.WriteHeader(http.StatusCreated)
		_, _ = fmt.Fprintf(w, `{"name":"","size":%d,"eTag":"verif"}`, len(data))
		return
	}
	b.mu.Lock()
	data, ok := b.blobs[fid]
	gz := b.gzipped[fid]
	b.mu.Unlock()
	if !ok {
		http.Error(w, "no such blob", http.StatusNotFound)
		return
	}
	atomic.AddInt64(&b.blobReads, 1)
	if gz {
		w.Header().Set("Content-Encoding", "gzip")
	}
	w.Header().Set("Content-Length", fmt.Sprint(len(data)))
	_, _ = w.Write(data)
}

// Uploads returns how many blobs the filer uploaded to the blob server.
func (b *BlobMaster) Uploads() int64 { return atomic.LoadInt64(&b.uploads) }

// StartBlobMaster starts the fake master and the blob server on fresh loopback ports.
func StartBlobMaster(r *Run) *BlobMaster {
	b := &BlobMaster{Vid: 7, blobs: make(map[string][]byte), gzipped: make(map[string]bool)}
	mp, bp := FreePort(), FreePort()
	for bp == mp {
		bp = FreePort()
	}
	b.MasterAddr = fmt.Sprintf("127.0.0.1:%d", mp)
	b.BlobAddr = fmt.Sprintf("127.0.0.1:%d", bp)

	ml, err := net.Listen("tcp", fmt.Sprintf("127.0.0.1:%d", mp+10000))
	r.Must(err, "listen fake master")
	ms := pb.NewGrpcServer() // the real servers' keepalive settings: a plain grpc server drops the filer's KeepConnected stream after a few client pings
	master_pb.RegisterSeaweedServer(ms, b)
	go func() { _ = ms.Serve(ml) }()

	hl, err := net.Listen("tcp", b.BlobAddr)
	r.Must(err, "listen blob server")
	hs := &http.Server{Handler: b}
	go func() { _ = hs.Serve(hl) }()

	vl, err := net.Listen("tcp", fmt.Sprintf("127.0.0.1:%d", bp+10000))
	r.Must(err, "listen volume stub")
	vs := pb.NewGrpcServer()
	volume_server_pb.RegisterVolumeServerServer(vs, &volStub{b: b})
	go func() { _ = vs.Serve(vl) }()

	b.stop = []func(){ms.Stop, vs.Stop, func() { _ = hs.Close() }}
	return b
}

func (b *BlobMaster) Stop() {
	for _, f := range b.stop {
		f()
	}
}

// Fid formats a file id in the canonical form the filer uses after a store round trip.
// (needle.FileId.String: key and cookie as bytes, leading zero bytes of the key stripped).
func Fid(vid uint32, key uint64, cookie uint32) string {
	k := fmt.Sprintf("%x", key)
	if len(k)%2 == 1 {
		k = "0" + k
	}
	return fmt.Sprintf("%d,%s%08x", vid, k, cookie)
}

// CloneChunks deep-copies a chunk list (the filer mutates chunks on serialization).
func CloneChunks(in []*filer_pb.FileChunk) []*filer_pb.FileChunk {
	out := make([]*filer_pb.FileChunk, len(in))
	for i, c := range in {
		out[i] = proto.Clone(c).(*filer_pb.FileChunk)
	}
	return out
}

// MakeManifestChunk builds a manifest chunk over dataChunks the way
// filer.mergeIntoManifest does and stores its blob under fid on the blob server.
func (b *BlobMaster) MakeManifestChunk(fid string, dataChunks []*filer_pb.FileChunk, mtime int64) *filer_pb.FileChunk {
	cl := CloneChunks(dataChunks)
	filer_pb.BeforeEntrySerialization(cl)
	data, err := proto.Marshal(&filer_pb.FileChunkManifest{Chunks: cl})
	if err != nil {
		panic(err)
	}
	b.PutBlob(fid, data)
	minOff, maxOff := int64(1<<62), int64(0)
	for _, c := range dataChunks {
		if c.Offset < minOff {
			minOff = c.Offset
		}
		if c.Offset+int64(c.Size) > maxOff {
			maxOff = c.Offset + int64(c.Size)
		}
	}
	if len(dataChunks) == 0 {
		minOff = 0
	}
	return &filer_pb.FileChunk{FileId: fid, Offset: minOff, Size: uint64(maxOff - minOff), Mtime: mtime, IsChunkManifest: true}
}

// ---------------------------------------------------------------------------
// the filer world

// FilerWorld is one real Filer + FilerServer over one embedded store.
type FilerWorld struct {
	R     *Run
	Kind  string
	Dir   string
	Raw   filer.FilerStore // the real store (harness-side wipe / inspection only)
	Store *CountingStore
	Filer *filer.Filer
	FS    *weed_server.FilerServer
	BM    *BlobMaster

	// ListUnderFiles makes Dump also list below file entries (an entry below a file
	// outside the probed universe would otherwise be missed); costs one store listing per file.
	ListUnderFiles bool
}

// NewFilerWorld opens a fresh store of the given kind in a scratch directory and
// wraps it in a real Filer and FilerServer. bm must not be nil: deleting a bucket
// directory asks the master to drop the collection, and manifest chunks are
// resolved through the master client's volume locations.
func NewFilerWorld(r *Run, kind string, bm *BlobMaster) *FilerWorld {
	w := &FilerWorld{R: r, Kind: kind, BM: bm}
	w.Raw, w.Dir = openRawStore(r, kind)
	w.Store = NewCountingStore(w.Raw)
	f := filer.NewFiler([]string{bm.MasterAddr}, grpc.WithInsecure(), "127.0.0.1", 0, "", "", "", func() {})
	f.DirBucketsPath = "/buckets"
	f.SetStore(w.Store)
	f.LoadBuckets()
	go f.KeepConnectedToMaster()
	w.Filer = f
	w.FS = weed_server.VerifNewFilerServer(f, &weed_server.FilerOption{DirListingLimit: 100000, MaxMB: 4}, false, grpc.WithInsecure())
	ok := false
	for i := 0; i < 6000; i++ {
		if _, found := f.MasterClient.GetLocations(bm.Vid); found {
			ok = true
			break
		}
		time.Sleep(5 * time.Millisecond)
	}
	if !ok {
		r.Must(errors.New("filer master client never received the volume location from the fake master"), "NewFilerWorld")
	}
	return w
}

func openRawStore(r *Run, kind string) (filer.FilerStore, string) {
	var raw filer.FilerStore
	switch kind {
	case "leveldb":
		raw = &leveldb.LevelDBStore{}
	case "leveldb2":
		raw = &leveldb2.LevelDB2Store{}
	case "leveldb3":
		raw = &leveldb3.LevelDB3Store{}
	default:
		r.Must(fmt.Errorf("unknown store kind %q", kind), "openRawStore")
	}
	dir := r.SubDir("filer-" + kind)
	r.Must(raw.Initialize(mapConfig{kind + ".dir": dir}, kind+"."), "initialize "+kind)
	return raw, dir
}

// FreshStore replaces the store behind the same Filer by a new empty one (the old
// one is closed and removed). leveldb keeps every overwritten version and tombstone
// of the few keys of a small path universe in its memtable, so listings get slower
// and slower when one store is reused for thousands of cases; a whole new Filer per
// batch of cases would be much more expensive than a new store.
func (w *FilerWorld) FreshStore() {
	old, oldDir := w.Raw, w.Dir
	w.Raw, w.Dir = openRawStore(w.R, w.Kind)
	w.Store.SetInner(w.Raw)
	old.Shutdown()
	_ = os.RemoveAll(oldDir)
}

// MasterReady reports whether the filer's master client still knows the announced volume
// (waits up to ~20 s for a reconnect). false means the harness side lost the KeepConnected
// stream: manifest chunks cannot be resolved by the filer, which is not the filer's fault.
func (w *FilerWorld) MasterReady() bool {
	for i := 0; i < 4000; i++ {
		if _, found := w.Filer.MasterClient.GetLocations(w.BM.Vid); found {
			return true
		}
		time.Sleep(5 * time.Millisecond)
	}
	return false
}

// Close shuts the store down (the Filer's background goroutines stay; worlds are few).
func (w *FilerWorld) Close() { w.Raw.Shutdown() }

// TreeDump is what the namespace looks like to readers.
type TreeDump struct {
	Found  map[string]*filer.Entry // Filer.FindEntry view (hard links resolved)
	Listed map[string]*filer.Entry // the same entry as its parent's listing shows it (nil if the parent listing lacks it)
}

// Paths returns the sorted paths of the dump.
func (d *TreeDump) Paths() []string {
	ps := make([]string, 0, len(d.Found))
	for p := range d.Found {
		ps = append(ps, p)
	}
	sort.Strings(ps)
	return ps
}

// Dump collects every entry that FindEntry shows for a universe path plus everything
// reachable by listing "/" and every directory found (with ListUnderFiles also every
// file: a file with children is a malformed tree; children of files that are universe
// paths are found by the probes anyway). The call budget must be off.
func (w *FilerWorld) Dump(universe []string) *TreeDump {
	ctx := context.Background()
	d := &TreeDump{Found: make(map[string]*filer.Entry), Listed: make(map[string]*filer.Entry)}
	var work []string
	for _, p := range universe {
		if p == "/" {
			continue
		}
		if e, err := w.Filer.FindEntry(ctx, util.FullPath(p)); err == nil && e != nil {
			d.Found[p] = e
			if e.IsDirectory() || w.ListUnderFiles {
				work = append(work, p)
			}
		}
	}
	work = append(work, "/")
	for len(work) > 0 {
		p := work[len(work)-1]
		work = work[:len(work)-1]
		entries, _, err := w.Filer.ListDirectoryEntries(ctx, util.FullPath(p), "", false, 1000000, "", "", "")
		if err != nil {
			continue
		}
		for _, le := range entries {
			cp := string(le.FullPath)
			d.Listed[cp] = le
			if _, seen := d.Found[cp]; seen {
				continue
			}
			e, err := w.Filer.FindEntry(ctx, le.FullPath)
			if err != nil || e == nil {
				// listed but not findable: keep the listed view so that the caller sees it
				e = le
			}
			d.Found[cp] = e
			if e.IsDirectory() || w.ListUnderFiles {
				work = append(work, cp)
			}
		}
	}
	return d
}

// Wipe removes every entry of the dump and the given KV keys directly in the real
// store (harness-side reset between cases; not an operation under test).
func (w *FilerWorld) Wipe(d *TreeDump, kvKeys [][]byte) {
	ctx := context.Background()
	ps := d.Paths()
	sort.Slice(ps, func(i, j int) bool { return len(ps[i]) > len(ps[j]) })
	for _, p := range ps {
		_ = w.Raw.DeleteEntry(ctx, util.FullPath(p))
	}
	for _, k := range kvKeys {
		_ = w.Raw.KvDelete(ctx, k)
	}
}

// EntryTag reads the harness tag of an entry (Extended["tag"]).
func EntryTag(e *filer.Entry) string {
	if e == nil || e.Extended == nil {
		return ""
	}
	return string(e.Extended["tag"])
}

// ChunkIds returns the top-level chunk ids of an entry in list order.
func ChunkIds(chunks []*filer_pb.FileChunk) []string {
	ids := make([]string, 0, len(chunks))
	for _, c := range chunks {
		ids = append(ids, c.GetFileIdString())
	}
	return ids
}
