module verifharness

go 1.16

require (
	github.com/anishathalye/porcupine v1.3.0
	github.com/chrislusf/seaweedfs v0.0.0
)

replace github.com/chrislusf/seaweedfs => /repo

replace go.etcd.io/etcd => go.etcd.io/etcd v0.5.0-alpha.5.0.20200425165423-262c93980547
